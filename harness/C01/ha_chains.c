/* C01 H-a (structure rules): the internal rules that read the typed signature without hashing, each against a
 * reference predicate written from the documented meaning (policy.h INT-xx descriptions, verification_rule.h):
 *   presence probes (8 rules)                      OK / NA without error code
 *   AggregationChainInputHashVerification  INT-01  without an RFC3161 record: always OK (with a record: ha_rfc.c)
 *   AggregationHashChainIndexContinuation  INT-12  every chain's index = the previous chain's index minus its last element;
 *                                                  RFC3161 record's index = first chain's index
 *   AggregationHashChainIndexConsistency   INT-10  last index element = 1-prefixed link directions (left = 1), first link = lowest bit
 *   AggregationHashChainTimeConsistency    INT-02  all chains (and the RFC3161 record) carry one aggregation time
 *   AggregationChainHashAlgorithmVerification INT-15  no chain's hash_id names an algorithm deprecated at its aggregation time
 *   AggregationChainInputHashAlgorithmVerification INT-13  signed hash's algorithm not deprecated at the signing time
 * Deprecation facts (KSI hash algorithm registry as quoted in hash.c): SHA-1 (id 0) deprecated from 2016-07-01T00:00:00Z
 * = 1467331200; no other id that libksi accepts in an imprint is deprecated or obsolete.
 * Shape per instance: number of chains, links per chain, chain index lengths, RFC3161 record (+ its index length),
 * calendar chain (+ aggregation time present).  Symbolic: all times, indices, hash ids (64 bit with SB_AGGRALG_HI),
 * link directions, algorithm ids of imprints within a digest-length class. */
#include "verif.h"
#include "internal.h"
#include "verification_rule.h"
#include "ctx.h"
#include "hash_model.h"
#include "verif_post.h"
#include "types_base.c"
#include "sig_builder.h"

#define SHA1_DEPRECATED_FROM 1467331200ull
#define T63 0x8000000000000000ull
#ifndef CHECK_T63
#define CHECK_T63 0   /* 1: this instance also claims the lifetime verdicts for times >= 2^63 (all other claims hold for all 64-bit times) */
#endif
#ifndef W_SIGNED20
#define W_SIGNED20 1  /* signed hash has a 20-byte digest (SHA-1 possible) */
#endif

#define IS(res_, rc_, ec_) (res == (res_) && r.resultCode == (rc_) && r.errorCode == (ec_))
#define IS_OK IS(KSI_OK, KSI_VER_RES_OK, KSI_VER_ERR_NONE)
#define IS_PRESENT(p) (res == KSI_OK && r.resultCode == ((p) ? KSI_VER_RES_OK : KSI_VER_RES_NA) && r.errorCode == KSI_VER_ERR_NONE)

void harness(void) {
	VERIF_ctx_init();
	VERIF_hm_init(0);
	KSI_CTX *ctx = VERIF_ctx;
	sb_build(ctx);
	KSI_RuleVerificationResult r;
	int res;

	/* ---------------- presence probes ---------------- */
	sb_result_init(&r); res = KSI_VerificationRule_Rfc3161DoesNotExist(&sb_vc, &r);
	CHECK(IS_PRESENT(!SB_HAS_RFC), "C01.Ha Rfc3161DoesNotExist is OK exactly without an RFC3161 record");
	sb_result_init(&r); res = KSI_VerificationRule_Rfc3161Existence(&sb_vc, &r);
	CHECK(IS_PRESENT(SB_HAS_RFC), "C01.Ha Rfc3161Existence is OK exactly with an RFC3161 record");
	sb_result_init(&r); res = KSI_VerificationRule_CalendarHashChainDoesNotExist(&sb_vc, &r);
	CHECK(IS_PRESENT(!SB_HAS_CAL), "C01.Ha CalendarHashChainDoesNotExist is OK exactly without a calendar chain");
	sb_result_init(&r); res = KSI_VerificationRule_CalendarHashChainExistence(&sb_vc, &r);
	CHECK(IS_PRESENT(SB_HAS_CAL), "C01.Ha CalendarHashChainExistence is OK exactly with a calendar chain");
	sb_result_init(&r); res = KSI_VerificationRule_SignatureDoesNotContainPublication(&sb_vc, &r);
	CHECK(IS_PRESENT(!SB_HAS_PUB), "C01.Ha SignatureDoesNotContainPublication is OK exactly without a publication record");
	sb_result_init(&r); res = KSI_VerificationRule_SignaturePublicationRecordExistence(&sb_vc, &r);
	CHECK(IS_PRESENT(SB_HAS_PUB), "C01.Ha SignaturePublicationRecordExistence is OK exactly with a publication record");
	sb_result_init(&r); res = KSI_VerificationRule_CalendarAuthenticationRecordDoesNotExist(&sb_vc, &r);
	CHECK(IS_PRESENT(!SB_HAS_AUTH), "C01.Ha CalendarAuthenticationRecordDoesNotExist is OK exactly without a calendar auth record");
	sb_result_init(&r); res = KSI_VerificationRule_CalendarAuthenticationRecordExistence(&sb_vc, &r);
	CHECK(IS_PRESENT(SB_HAS_AUTH), "C01.Ha CalendarAuthenticationRecordExistence is OK exactly with a calendar auth record");

#if !SB_HAS_RFC
	/* ---------------- INT-01 (RFC3161 part): nothing to compare without an RFC3161 record ---------------- */
	sb_result_init(&r); res = KSI_VerificationRule_AggregationChainInputHashVerification(&sb_vc, &r);
	CHECK(IS_OK, "C01.Ha the RFC3161 input hash rule accepts every signature without an RFC3161 record");
#endif

	/* ---------------- INT-12 index continuation ---------------- */
	{
		int ok = 1;
		for (unsigned c = 1; c < SB_NCHAINS; c++) {
			if (sb_idxlen[c - 1] != sb_idxlen[c] + 1) ok = 0;
			else for (unsigned j = 0; j < SB_MAXIDX; j++) if (j < sb_idxlen[c] && SB.ch[c].idx[j] != SB.ch[c - 1].idx[j]) ok = 0;
		}
#if SB_HAS_RFC
		if (SB_RFC_IDXLEN != sb_idxlen[0]) ok = 0;
		else for (unsigned j = 0; j < SB_MAXIDX; j++) if (j < SB_RFC_IDXLEN && SB.rfc.idx[j] != SB.ch[0].idx[j]) ok = 0;
#endif
		sb_result_init(&r); res = KSI_VerificationRule_AggregationHashChainIndexContinuation(&sb_vc, &r);
		if (ok) { CHECK(IS_OK, "C01.Ha index continuation accepted when every chain index extends the next one");
#if W_CONT_OK
			WITNESS_POINT("chain indices continue each other");
#endif
		} else { CHECK(IS(KSI_OK, KSI_VER_RES_FAIL, KSI_VER_ERR_INT_12), "C01.Ha broken index continuation yields FAIL INT-12");
#if SB_NCHAINS > 1 || SB_HAS_RFC
			WITNESS_POINT("chain index continuation broken");
#endif
		}
	}

	/* ---------------- INT-10 index vs. shape ---------------- */
	{
		int ok = 1;
		for (unsigned c = 0; c < SB_NCHAINS; c++) {
			if (sb_idxlen[c] > 0) {
				u64 shape = 1ull << sb_nlinks[c];
				for (unsigned l = 0; l < SB_MAXLN; l++) if (l < sb_nlinks[c] && SB.ch[c].link[l].isLeft) shape += 1ull << l;
				if (SB.ch[c].idx[sb_idxlen[c] - 1] != shape) ok = 0;
			}
		}
		sb_result_init(&r); res = KSI_VerificationRule_AggregationHashChainIndexConsistency(&sb_vc, &r);
		if (ok) { CHECK(IS_OK, "C01.Ha index consistency accepted when every last index element encodes the link directions");
			WITNESS_POINT("chain index matches the link directions");
		} else { CHECK(IS(KSI_OK, KSI_VER_RES_FAIL, KSI_VER_ERR_INT_10), "C01.Ha index not matching the link directions yields FAIL INT-10");
			WITNESS_POINT("chain index does not match the link directions");
		}
	}

	/* ---------------- INT-02 one aggregation time ---------------- */
	{
		int ok = 1;
		for (unsigned c = 1; c < SB_NCHAINS; c++) if (SB.ch[c].aggrTime != SB.ch[c - 1].aggrTime) ok = 0;
#if SB_HAS_RFC
		if (SB.rfc.aggrTime != SB.ch[0].aggrTime) ok = 0;
#endif
		sb_result_init(&r); res = KSI_VerificationRule_AggregationHashChainTimeConsistency(&sb_vc, &r);
		if (ok) { CHECK(IS_OK, "C01.Ha time consistency accepted when all records carry one aggregation time");
			WITNESS_POINT("one aggregation time");
		} else { CHECK(IS(KSI_OK, KSI_VER_RES_FAIL, KSI_VER_ERR_INT_2), "C01.Ha differing aggregation times yield FAIL INT-02");
#if SB_NCHAINS > 1 || SB_HAS_RFC
			WITNESS_POINT("aggregation times differ");
#endif
		}
	}

	/* ---------------- INT-15 chain algorithm lifetime ---------------- */
	{
		int dep = 0, far = 0, wide = 0;
		for (unsigned c = 0; c < SB_NCHAINS; c++) {
			if (SB.ch[c].hashId == 0 && SB.ch[c].aggrTime >= SHA1_DEPRECATED_FROM) { dep = 1; if (SB.ch[c].aggrTime >= T63) far = 1; }
			if (SB.ch[c].hashId > 0xffffffffull) wide = 1;
		}
		sb_result_init(&r); res = KSI_VerificationRule_AggregationChainHashAlgorithmVerification(&sb_vc, &r);
		if (!wide) {
			if (!dep) CHECK(IS_OK, "C01.Ha chain hash algorithms alive at aggregation time are accepted");
			else if (!far) { CHECK(IS(KSI_OK, KSI_VER_RES_FAIL, KSI_VER_ERR_INT_15), "C01.Ha a chain hashed with SHA-1 from 2016-07-01 on yields FAIL INT-15");
#if W_SHA1
				WITNESS_POINT("SHA-1 chain after the deprecation date");
#endif
			}
#if CHECK_T63
			else { CHECK(IS(KSI_OK, KSI_VER_RES_FAIL, KSI_VER_ERR_INT_15), "C01.Ha T63 FAIL INT-15 also for aggregation times of 2^63 seconds and beyond");
				WITNESS_POINT("SHA-1 chain with an aggregation time beyond 2^63");
			}
#endif
		}
		/* hash ids that do not fit 32 bits name no algorithm; what the lifetime rule says about them is not claimed here
		 * (the consistency harness claims that such a chain is never accepted) */
	}

	/* ---------------- INT-13 signed hash algorithm lifetime ---------------- */
	{
		const struct sb_hash_v *S = SB_HAS_RFC ? &SB.rfc.in : &SB.ch[0].in;
		/* time of signing (policy.h INT-13): the calendar chain's aggregation time (its publication time when the optional
		 * aggregation time element is absent) if there is a calendar chain, else the first chain's aggregation time */
		u64 T = SB_HAS_CAL ? (SB_CAL_HAS_AGGRTIME ? SB.cal.aggrTime : SB.cal.pubTime) : SB.ch[0].aggrTime;
		int dep = (S->imp[0] == 0 && T >= SHA1_DEPRECATED_FROM);
		sb_result_init(&r); res = KSI_VerificationRule_AggregationChainInputHashAlgorithmVerification(&sb_vc, &r);
		if (!dep) { CHECK(IS_OK, "C01.Ha signed hash algorithm alive at signing time is accepted");
#if W_SIGNED20
			if (S->imp[0] == 0 && T == SHA1_DEPRECATED_FROM - 1) WITNESS_POINT("SHA-1 document hash one second before deprecation");
#endif
		} else if (T < T63) { CHECK(IS(KSI_OK, KSI_VER_RES_FAIL, KSI_VER_ERR_INT_13), "C01.Ha SHA-1 signed hash from 2016-07-01 on yields FAIL INT-13");
#if W_SIGNED20
			if (T == SHA1_DEPRECATED_FROM) WITNESS_POINT("SHA-1 document hash at the deprecation second");
#endif
		}
#if CHECK_T63
		else { CHECK(IS(KSI_OK, KSI_VER_RES_FAIL, KSI_VER_ERR_INT_13), "C01.Ha T63 FAIL INT-13 also for signing times of 2^63 seconds and beyond");
			WITNESS_POINT("SHA-1 document hash with a signing time beyond 2^63");
		}
#endif
	}
}
