/* C03 H-1: KSI_HashChain_aggregate == the KSI chain formula, for every chain of <= NLINKS links.
 *   step hash   = H(left || right || level byte),  level = previous level + correction + 1
 *   sibling     = imprint | legacy-id bytes | serialized metadata payload
 *   rejected (no digest) iff some correction > 255 or some running level > 255.
 * Real code: hashchain.c (aggregateChain, dataHasher_add*), hash.c front end, types_base.c,
 * tlv_element.c (metadata serializer), list.c.  Model: hash_model (records every message). */
#include "verif.h"
#include "internal.h"
#include "impl/hashchain_impl.h"
#include "impl/meta_data_element_impl.h"
#include "tlv_element.h"
#include "ctx.h"
#include "hash_model.h"
#include "verif_post.h"

#ifndef NLINKS
#define NLINKS 2
#endif
/* The chain SHAPE (number of links, sibling kind per link, metadata payload length) is concrete per
 * instance and enumerated by the driver (plan.json instances); all VALUES are symbolic. */
#ifndef SHAPE_K
#define SHAPE_K {0, 0, 0, 0}
#endif
#ifndef SHAPE_M
#define SHAPE_M {0, 0, 0, 0}
#endif
static const unsigned shape_kind[4] = SHAPE_K;
static const unsigned shape_mdlen[4] = SHAPE_M;
#define NL (NLINKS > 0 ? NLINKS : 1)
#ifndef ALGI
#define ALGI 1
#endif

static const int algs[5] = {KSI_HASHALG_SHA1, KSI_HASHALG_SHA2_256, KSI_HASHALG_RIPEMD160, KSI_HASHALG_SHA2_384, KSI_HASHALG_SHA2_512};
static const unsigned alglen[5] = {20, 32, 20, 48, 64};

static u8 md_raw[NL][6];

void harness(void) {
	VERIF_ctx_init();
	VERIF_hm_init(0);
	KSI_CTX *ctx = VERIF_ctx;
	int res;

	/* symbolic chain */
	const unsigned n = NLINKS;
	const unsigned algi = ALGI;   /* concrete per instance: it determines every message length */
	int startLevel = ND(int, start); ASSUME(startLevel >= 0 && startLevel <= 255);

	u8 in_digest[20]; for (int i = 0; i < 20; i++) in_digest[i] = ND(u8, in_digest);
	KSI_DataHash *inputHash = NULL;
	res = KSI_DataHash_fromDigest(ctx, KSI_HASHALG_SHA1, in_digest, 20, &inputHash);
	ASSUME(res == KSI_OK);

	KSI_LIST(KSI_HashChainLink) *chain = NULL;
	res = KSI_HashChainLinkList_new(&chain); ASSUME(res == KSI_OK);

	int isLeft[NL]; unsigned kind[NL]; u64 corr[NL];
	u8 sib[NL][29]; unsigned siblen[NL];
	for (unsigned i = 0; i < NLINKS; i++) {
		isLeft[i] = ND_BOOL(isleft);
		kind[i] = shape_kind[i];
		corr[i] = ND(u64, corr);
		unsigned mdlen = shape_mdlen[i];
		for (int j = 0; j < 29; j++) sib[i][j] = ND(u8, sib);
		if (i < n) {
			KSI_HashChainLink *link = NULL;
			res = KSI_HashChainLink_new(ctx, &link); ASSUME(res == KSI_OK);
			link->isLeft = isLeft[i];
			res = KSI_Integer_new(ctx, corr[i], &link->levelCorrection); ASSUME(res == KSI_OK);
			if (kind[i] == 0) {           /* sibling imprint: SHA-1 sized */
				sib[i][0] = KSI_HASHALG_SHA1; siblen[i] = 21;
				res = KSI_DataHash_fromImprint(ctx, sib[i], 21, &link->imprint); ASSUME(res == KSI_OK);
			} else if (kind[i] == 1) {    /* legacy id: 29 raw bytes (well-formedness is C10's subject) */
				siblen[i] = 29;
				res = KSI_OctetString_new(ctx, sib[i], 29, &link->legacyId); ASSUME(res == KSI_OK);
			} else {                      /* metadata element 04 <len> payload */
				KSI_MetaDataElement *md = malloc(sizeof(*md)); ASSUME(md != NULL);
				memset(md, 0, sizeof(*md)); md->ctx = ctx; md->ref = 1;
				md_raw[i][0] = 0x04; md_raw[i][1] = (u8)mdlen;
				for (unsigned j = 0; j < 4; j++) md_raw[i][2 + j] = sib[i][j];
				res = KSI_TlvElement_parse(md_raw[i], 2 + mdlen, &md->impl); ASSUME(res == KSI_OK);
				siblen[i] = mdlen;
				link->metaData = md;
			}
			res = KSI_HashChainLinkList_append(chain, link); ASSUME(res == KSI_OK);
		}
	}

	int endLevel = -1;
	KSI_DataHash *out = NULL;
	VERIF_hm_nrec = 0;
	res = KSI_HashChain_aggregate(ctx, chain, inputHash, startLevel, algs[algi], &endLevel, &out);

	/* ---- reference ---- */
	int ref_ok = 1; unsigned level = (unsigned)startLevel;
	unsigned lv[NL];
	for (unsigned i = 0; i < NLINKS; i++) {
		if (i < n && ref_ok) {
			if (corr[i] > 255) ref_ok = 0;
			else { level = level + (unsigned)corr[i] + 1; if (level > 255) ref_ok = 0; }
			lv[i] = level;
		}
	}
	CHECK(VERIF_hm_overflow == 0, "C03.H1 hash-model log large enough");
	CHECK((res == KSI_OK) == (ref_ok != 0), "C03.H1 chain accepted iff every correction <= 255 and every level <= 255");
	if (res != KSI_OK) {
		CHECK(out == NULL, "C03.H1 no digest returned on rejection");
#if NLINKS >= 1
		if (corr[n - 1] > 0xffffffffull) WITNESS_POINT("huge correction rejected");
#endif
	} else {
		CHECK(endLevel == (int)level, "C03.H1 end level = start + sum(correction + 1)");
		CHECK(VERIF_hm_nrec == n, "C03.H1 exactly one hash computation per link");
		if (n == 0) CHECK(out == NULL, "C03.H1 empty chain yields no new digest");
		/* message of every step */
		u8 cur[65]; unsigned curlen = 21;
		cur[0] = KSI_HASHALG_SHA1; for (int j = 0; j < 20; j++) cur[1 + j] = in_digest[j];
		for (unsigned i = 0; i < NLINKS; i++) {
			if (i < n) {
				const u8 *L = isLeft[i] ? cur : sib[i]; unsigned ll = isLeft[i] ? curlen : siblen[i];
				const u8 *R = isLeft[i] ? sib[i] : cur; unsigned rl = isLeft[i] ? siblen[i] : curlen;
				unsigned el = ll + rl + 1;
				int same = 1;
				for (unsigned k = 0; k < HM_LOG_MAX; k++) {
					u8 e = 0;
					if (k < ll) e = L[k < 65 ? k : 0];
					else if (k < ll + rl) e = R[(k - ll) < 65 ? (k - ll) : 0];
					else if (k == ll + rl) e = (u8)lv[i];
					if (k < el && VERIF_hm_rec[i].msg[k] != e) same = 0;
				}
				CHECK(VERIF_hm_rec[i].alg == algs[algi], "C03.H1 step hashed with the chain's algorithm");
				CHECK(VERIF_hm_rec[i].len == el, "C03.H1 step message length = |left|+|right|+1");
				CHECK(same, "C03.H1 step message = left || right || level byte");
				cur[0] = (u8)algs[algi]; for (unsigned k = 0; k < 64; k++) cur[1 + k] = VERIF_hm_rec[i].digest[k]; curlen = 1 + alglen[algi];
			}
		}
		if (n > 0) {
			const unsigned char *imp = NULL; size_t implen = 0;
			KSI_DataHash_getImprint(out, &imp, &implen);
			int eq = (implen == curlen);
			for (unsigned k = 0; k < 65; k++) if (k < curlen && eq && imp[k] != cur[k]) eq = 0;
			CHECK(eq, "C03.H1 returned root = digest of the last step");
		}
#if NLINKS >= 1
		if (isLeft[0] && corr[0] == 3) WITNESS_POINT("chain accepted, first link left");
		if (!isLeft[n - 1] && lv[n - 1] == 255) WITNESS_POINT("chain accepted at level 255, last link right");
#else
		WITNESS_POINT("empty chain accepted");
#endif
	}
}
