#!/usr/bin/env python3
"""Generates harness/C16/plan.json (instances are enumerated shapes).  Run after editing."""
import json, os
HERE = os.path.dirname(os.path.abspath(__file__))

ENV = ["ctx_expect", "hash_model", "list_wrap", "fmt_stub", "metadata_obj"]
TUS = ["hashchain", "hash", "types_base", "tlv_element", "fast_tlv"]
FS = ["--max-field-sensitivity-array-size", "256"]
RESTRICT = ["KSI_List_free.function_pointer_call.1/KSI_HashChainLink_free,KSI_TlvElement_free"]

def kinds(s):
    k = [1 if c == 'm' else 0 for c in s] + [0] * (10 - len(s))
    return "KINDS={%s}" % ",".join(map(str, k))

def tree_inst(shape, alg="KSI_HASHALG_SHA1", refuse=-1, maxmode=0, label=None):
    """shape: string over h/m, one char per ADD (including the refused one)"""
    n = len(shape) - (1 if refuse >= 0 else 0)
    d = ["NLEAVES=%d" % n, kinds(shape), "ALG=%s" % alg, "REFUSE=(%d)" % refuse, "MAXMODE=%d" % maxmode]
    if maxmode != 2 and bin(n).count("1") >= 2:
        d.append("WIT_CLOSE_OVERFLOW=1")
    lab = label or ("n%d_%s%s%s%s" % (n, shape, "_s256" if "256" in alg else "", "_r%d" % refuse if refuse >= 0 else "", "_m%d" % maxmode if maxmode else ""))
    return {"label": lab, "defines": d}

h1_quick = [tree_inst("h"), tree_inst("hh"), tree_inst("mh"), tree_inst("hhh"), tree_inst("hmh"),
            tree_inst("hhhh"), tree_inst("hhmh", alg="KSI_HASHALG_SHA2_256"), tree_inst("hhhhh")]
h1_thorough = h1_quick + [tree_inst("hmhhm"), tree_inst("hhhhhh"), tree_inst("hhhhhhh"), tree_inst("hhhhhhhh"),
                          tree_inst("hhhhhh", alg="KSI_HASHALG_SHA2_256"), tree_inst("mhmhmhmh")]
# refusal: position r of the refused add; odd r with no limit = carry overflow (r = 3: carry depth 0 or 1)
h2_quick = [tree_inst("hh", refuse=1, maxmode=1), tree_inst("hhh", refuse=2, maxmode=2), tree_inst("hhhh", refuse=3, maxmode=1),
            tree_inst("hhmh", refuse=1, maxmode=0), tree_inst("hhhh", refuse=3, maxmode=2)]
h2_thorough = h2_quick + [tree_inst("hhhhhh", refuse=5, maxmode=1), tree_inst("hhhhhh", refuse=3, maxmode=0), tree_inst("hhhhhhhh", refuse=7, maxmode=1)]

common = {"src": "h1_tree.c", "env": ENV, "tus": TUS, "unwind": 6,
          "unwindset": ["KSI_TreeBuilder_close.0:257", "calculateHighestLevel.0:257"],
          "cbmc_flags": FS, "restrict_fp": RESTRICT, "object_bits": 12, "mem_gb": 8, "timeout": 600, "solver": "kissat",
          "functions": ["KSI_TreeBuilder_new", "KSI_TreeBuilder_addDataHash", "KSI_TreeBuilder_addMetaData", "addLeaf", "processAndInsertNode",
                        "insertNode", "KSI_TreeNode_join", "joinHashes", "KSI_DataHasher_addTreeNode", "KSI_TreeNode_new", "calculateHighestLevel",
                        "levelWithOverhead", "KSI_TreeBuilder_close", "KSI_TreeLeafHandle_getAggregationChain", "getHashChainLinks", "KSI_TreeNode_free"]}

plan = {
 "property": "C16",
 "outside": "",
 "assumptions": [],
 "manifest": {"claimed": True, "level_text": "", "level_note": ""},
 "harnesses": [
  dict(common, name="h1_tree", global_defines=["HM_LOG_MAX=72", "HM_REC_MAX=8"],
       bound="", instances=h1_quick, thorough={"instances": h1_thorough, "timeout": 1800}),
  dict(common, name="h2_refuse", global_defines=["HM_LOG_MAX=72", "HM_REC_MAX=8"],
       bound="", instances=h2_quick, thorough={"instances": h2_thorough, "timeout": 1800}),
 ]}
json.dump(plan, open(os.path.join(HERE, "plan.json"), "w"), indent=1)
print("wrote plan.json:", sum(len(h.get("instances", [1])) for h in plan["harnesses"]), "quick instances")
