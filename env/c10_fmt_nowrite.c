/* C10 template harnesses: message formatting is not the subject and the formatted text is never read
 * by the code under test (it only goes to KSI_LOG_* / KSI_ERR_push, which the context model ignores).
 * KSI_snprintf/KSI_vsnprintf return 0 and leave the buffer untouched, i.e. its contents stay
 * unconstrained (an over-approximation of any text).  Not writing matters for CBMC: every guarded
 * write to a 1 KiB stack buffer creates a new 8192-bit array version at each control-flow join
 * (measured: 1.2 M variables for two children with the writing stub).
 * The real formatter arithmetic is checked in C12 (h_fmt, h_tostring). */
#include "internal.h"
#include <stdarg.h>
size_t KSI_vsnprintf(char *buf, size_t n, const char *format, va_list va) { (void)buf; (void)n; (void)format; (void)va; return 0; }
size_t KSI_snprintf(char *buf, size_t n, const char *format, ...) { (void)buf; (void)n; (void)format; return 0; }
