/* C09 H-3: the STREAM reader of the header codec (fast_tlv.c readData, the body of KSI_FTLV_fileRead and
 * KSI_FTLV_socketRead) on a stream of L <= N symbolic bytes that ends after L bytes (a read beyond the end is short,
 * as fread / recv at end of stream), into a caller buffer of a symbolic size:
 *   success  <=>  the first element is complete in the stream (2- or 4-byte header and its whole payload) and fits
 *   the buffer; then exactly that element's bytes were consumed, they are in the buffer unchanged, and tag, flags,
 *   header and payload length are the encoded ones;
 *   otherwise an error is returned, `consumed` is exactly what was taken from the stream, and nothing is written
 *   outside the caller's buffer (CBMC's bounds checks on a buffer of exactly the declared size). */
#include "verif.h"
#include "internal.h"
#include "fast_tlv.c"
#ifndef N
#define N 8
#endif
struct stream { u8 s[N]; size_t len, pos; unsigned calls; };
static int stream_read(void *fd, unsigned char *buf, size_t n, size_t *rd) {
	struct stream *st = (struct stream *)fd; size_t k = 0;
	st->calls++;
	if (n == 0) { *rd = 0; return KSI_INVALID_ARGUMENT; }      /* KSI_IO_readFile refuses size 0 */
	for (size_t i = 0; i < N; i++) if (i < n && st->pos < st->len) { buf[i] = st->s[st->pos++]; k++; }
	*rd = k; return KSI_OK;
}
static int ref_elem(const u8 *b, size_t l, size_t *hdr, size_t *dat, unsigned *tag) {
	if (l < 2) return 0;
	if (b[0] & 0x80) { if (l < 4) return 0; *hdr = 4; *tag = ((b[0] & 0x1f) << 8) | b[1]; *dat = ((size_t)b[2] << 8) | b[3]; }
	else { *hdr = 2; *tag = b[0] & 0x1f; *dat = b[1]; }
	return l >= *hdr + *dat;
}
void harness(void) {
	static struct stream st;
	st.len = ND(size_t, stream_len); ASSUME(st.len <= N); st.pos = 0; st.calls = 0;
	for (size_t i = 0; i < N; i++) st.s[i] = ND(u8, stream);
	size_t blen = ND(size_t, buf_len); ASSUME(blen >= 1 && blen <= N + 2);
	u8 *buf = verif_buf_alloc(blen);
	KSI_FTLV t; size_t consumed = 777;
	int res = readData(&st, buf, blen, &consumed, &t, stream_read);
	size_t h = 0, d = 0; unsigned tag = 0;
	int complete = ref_elem(st.s, st.len, &h, &d, &tag);
	CHECK(consumed == st.pos, "C09.H3 consumed = bytes taken from the stream");
	if (blen < 2) { CHECK(res != KSI_OK && st.pos == 0, "C09.H3 a buffer below two bytes is refused before reading"); verif_buf_free(buf, blen); return; }
	/* what the header says, if the header itself is complete */
	int hdr_ok = st.len >= 2 && (!(st.s[0] & 0x80) || st.len >= 4);
	size_t hh = (st.s[0] & 0x80) ? 4 : 2, dd = (st.s[0] & 0x80) ? (((size_t)st.s[2] << 8) | st.s[3]) : st.s[1];
	int fits = hdr_ok && (!(st.s[0] & 0x80) || blen >= 4) && blen >= hh + dd;
	CHECK((res == KSI_OK) == (complete && fits), "C09.H3 the stream reader succeeds iff the first element is complete in the stream and fits the buffer");
	if (res == KSI_OK) {
		CHECK(consumed == h + d, "C09.H3 exactly one element's bytes are consumed");
		CHECK(t.hdr_len == h && t.dat_len == d && t.tag == tag && t.is_nc == ((st.s[0] & 0x40) != 0) && t.is_fwd == ((st.s[0] & 0x20) != 0), "C09.H3 tag, flags and lengths are the encoded ones");
		int same = 1; for (size_t i = 0; i < N; i++) if (i < h + d && buf[i] != st.s[i]) same = 0;
		CHECK(same, "C09.H3 the element's bytes are delivered unchanged");
		if (h == 4 && d == 4) WITNESS_POINT("TLV16 element with payload");
		if (h == 2 && d == 0 && st.len == 2) WITNESS_POINT("empty TLV8 element ending the stream");
	} else {
		if (hdr_ok && !fits) CHECK(consumed <= hh, "C09.H3 no payload is read for an element that does not fit the buffer");
		if (st.len == 3 && (st.s[0] & 0x80)) WITNESS_POINT("stream cut at byte 3 of a 4-byte header");
		if (hdr_ok && fits && !complete) WITNESS_POINT("stream cut inside the payload");
	}
	verif_buf_free(buf, blen);
}
