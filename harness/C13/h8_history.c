/* C13 H-8: bounded history through the PUBLIC entry points, from the real constructors
 * (KSI_SigningAsyncService_new + KSI_AbstractAsyncClient_new, cache size set with KSI_AsyncService_setOption),
 * with an exactly-once monitor.  It (a) witnesses that Inv(c) of the step harnesses H-1..H-7 is reached and kept
 * by real histories, and (b) reproduces step-harness counterexamples from the constructor.
 *
 * OPS (concrete per instance) is a sequence of
 *   1  KSI_AsyncService_addRequest(request)            2  ...addRequest(configuration request)
 *   3  ...addRequest(request + configuration)           4  KSI_AsyncService_run(service, &handle, &waiting)
 *   5  KSI_AsyncService_run(service, NULL, &waiting)   (pump only)
 * Everything else is symbolic: whether the transport accepts / sends / fails, what the server replies in each round
 * (nothing | error PDU | authenticated or unauthenticated PDU with optional configuration and optional response
 * with any id and status), the clock (non-decreasing), the receive timeout.
 * Monitor (property text): every handle returned was accepted (or is a configuration the library created) and was
 * not returned before; it is in a final state; every accepted, not yet returned handle is still cached;
 * pending + received and the reported waiting count equal the number of handles owed; ids of outstanding requests
 * are pairwise different; Inv(c) after every operation.  Returned handles are released by the "user", so a second
 * use by the library would be a use-after-free. */
#define HN "C13.H8"
#define C13_VERIFY_OK 1
#define C13_CREDENTIALS_OK 1
#define C13_ADD_MAX 6          /* >= number of operations: every accepted handle stays in the transport model until sent/failed */
#define C13_ADD_MAX_H8 C13_ADD_MAX
#include "verif.h"
#include "internal.h"
#include "ctx.h"
#include "verif_post.h"
#include "c13_model.h"
#include "net_async.c"
#include "c13_state.h"

#ifndef NOPS
#define NOPS 3
#endif
#ifndef OPS
#define OPS {1, 4, 4, 0, 0, 0}
#endif
static const int ops[6] = OPS;

/* net.c: KSI_AbstractAsyncService_new (plain allocation, all callbacks NULL) */
int KSI_AbstractAsyncService_new(KSI_CTX *ctx, KSI_AsyncService **service) {
	if (ctx == NULL || service == NULL) return KSI_INVALID_ARGUMENT;
	KSI_AsyncService *s = (KSI_AsyncService *)malloc(sizeof(KSI_AsyncService));
	if (s == NULL) return KSI_OUT_OF_MEMORY;
	memset(s, 0, sizeof(*s));
	s->ctx = ctx;
	*service = s;
	return KSI_OK;
}

/* transport of the history harness: releases its reference once a handle is sent or failed (as net_tcp_async.c does) */
static int h8_dispatch(void *impl) {
	struct c13_transport *t = (struct c13_transport *)impl;
	t->dispatch_calls++;
	for (unsigned i = 0; i < C13_ADD_MAX_H8; i++) {
		KSI_AsyncHandle *h = t->held_add[i];
		if (h == NULL) continue;
		if (h->state == KSI_ASYNC_STATE_WAITING_FOR_DISPATCH) c13_tr_dispatch_one(h);
		if (h->state != KSI_ASYNC_STATE_WAITING_FOR_DISPATCH) { t->held_add[i] = NULL; KSI_AsyncHandle_free(h); }
	}
	unsigned r = ND(unsigned, dispatch_result);
	t->dispatch_res = KSI_OK;
	if (r == 1) t->dispatch_res = KSI_ASYNC_CONNECTION_CLOSED;
	if (r == 2) t->dispatch_res = c13_stub_status(1, ND(int, dispatch_error));
	return t->dispatch_res;
}

static unsigned char rawbuf[NOPS][2];
static struct KSI_OctetString_st octets[NOPS];

void harness(void) {
	VERIF_ctx_init();
	KSI_CTX *ctx = VERIF_ctx;
	int res;
	KSI_AsyncService *as = NULL;
	KSI_AsyncClient *c = NULL;

	memset(&c13_tr, 0, sizeof(c13_tr));
	c13_now = ND(long, now); ASSUME(0 <= c13_now && c13_now < C13_TIME_MAX);
	res = KSI_SigningAsyncService_new(ctx, &as); ASSUME(res == KSI_OK && as != NULL);
	res = KSI_AbstractAsyncClient_new(ctx, &c); ASSUME(res == KSI_OK && c != NULL);
	c->clientImpl = &c13_tr;
	c->addRequest = c13_tr_addRequest;
	c->getResponse = (int (*)(void *, KSI_OctetString **, size_t *))c13_tr_getResponse;
	c->getCredentials = c13_tr_getCredentials;
	c->dispatch = h8_dispatch;
	as->impl = c; as->impl_free = (void (*)(void *))KSI_AsyncClient_free;
	res = KSI_AsyncService_setOption(as, KSI_ASYNC_OPT_REQUEST_CACHE_SIZE, (void *)(size_t)(CACHE_S - 1)); ASSUME(res == KSI_OK);
	{
		size_t tmo = ND(size_t, rcv_timeout);
		res = KSI_AsyncService_setOption(as, KSI_ASYNC_OPT_RCV_TIMEOUT, (void *)tmo); ASSUME(res == KSI_OK);
		c13_difftime_threshold = tmo; c13_difftime_threshold_set = 1;
	}
	c13_check_inv(c);      /* the constructor establishes Inv */

	/* monitor */
	KSI_AsyncHandle *user[NOPS]; int accepted[NOPS], returned[NOPS], owedReq[NOPS], owedCnf[NOPS]; KSI_uint64_t idrec[NOPS];
	for (unsigned i = 0; i < NOPS; i++) { user[i] = NULL; accepted[i] = 0; returned[i] = 0; owedReq[i] = 0; owedCnf[i] = 0; idrec[i] = 0; }
	unsigned extraOwed = 0;       /* configuration handles created by the library (request+configuration, pushed) and cached */
	int sawResponse = 0, sawRefusal = 0, sawTimeout = 0, sawReuse = 0;

	for (unsigned s = 0; s < NOPS; s++) {
		const int op = ops[s];
		{ long adv = ND(long, clock_advance); ASSUME(adv >= 0 && adv < C13_TIME_MAX - c13_now); c13_now += adv; }
		if (op >= 1 && op <= 3) {
			KSI_AsyncHandle *h = NULL;
			res = KSI_AbstractAsyncHandle_new(ctx, &h); ASSUME(res == KSI_OK && h != NULL);
			c13_attach_request(ctx, h, 0, op & 1, (op & 2) != 0);
			if (op & 1) { KSI_Integer_free(h->aggrReq->requestId); h->aggrReq->requestId = NULL; }
			user[s] = h;
			const size_t owedBefore = c->pending + c->received;
			res = KSI_AsyncService_addRequest(as, h);
			if (res == KSI_OK) {
				accepted[s] = 1; owedReq[s] = (op & 1); owedCnf[s] = ((op & 2) != 0); idrec[s] = h->id;
				if (op == 3) extraOwed++;    /* the library owes a second handle for the configuration part */
				if (op & 1) {
					for (unsigned j = 0; j < NOPS; j++)
						if (j < s && accepted[j] && !returned[j] && owedReq[j]) CHECK(idrec[j] != h->id, HN " outstanding requests have pairwise different ids");
					for (unsigned j = 0; j < NOPS; j++)
						if (j < s && accepted[j] && returned[j] && owedReq[j] && (idrec[j] & 0xffffffffull) == (h->id & 0xffffffffull)) {
							CHECK(idrec[j] != h->id, HN " a re-used slot gets an id of another generation");
							sawReuse = 1;
						}
				}
			} else {
				if (res == KSI_ASYNC_REQUEST_CACHE_FULL && owedBefore == CACHE_S - 1) sawRefusal = 1;
				CHECK(h->ref == 1, HN " refused handle stays with the caller");
				KSI_AsyncHandle_free(h);     /* the caller cleans up (API contract) */
				user[s] = NULL;
			}
		} else if (op == 4 || op == 5) {
			/* what the server sent since the last round: at most one PDU */
			const unsigned kind = ND(unsigned, pdu_kind); ASSUME(kind <= 3);   /* 0 nothing, 1 error PDU, 2 ordinary PDU, 3 unparsable */
			c13_tr.nresp = 0; c13_tr.resp_taken = 0;
			c13_KSI_AggregationPdu_table[0] = NULL; c13_KSI_AggregationPdu_parse_status[0] = KSI_OK;
			if (kind != 0) {
				rawbuf[s][0] = 0; rawbuf[s][1] = 0;
				octets[s].ctx = ctx; octets[s].ref = 2; octets[s].data = rawbuf[s]; octets[s].data_len = 2;
				c13_tr.resp[0] = &octets[s]; c13_tr.nresp = 1;
				if (kind == 3) c13_KSI_AggregationPdu_parse_status[0] = c13_stub_status(1, ND(int, parse_code));
				else {
					KSI_AggregationPdu *pdu = (KSI_AggregationPdu *)malloc(sizeof(KSI_AggregationPdu)); ASSUME(pdu != NULL);
					memset(pdu, 0, sizeof(*pdu)); pdu->ctx = ctx;
					if (kind == 1) {
						KSI_ErrorPdu *e = (KSI_ErrorPdu *)malloc(sizeof(KSI_ErrorPdu)); ASSUME(e != NULL);
						e->ctx = ctx; e->status = NULL; e->errorMsg = NULL;
						res = KSI_Integer_new(ctx, ND(u64, error_status), &e->status); ASSUME(res == KSI_OK);
						pdu->error = e;
					} else {
						pdu->macFails = ND_BOOL(mac_fails); pdu->macCode = c13_stub_status(1, ND(int, mac_code));
						if (ND_BOOL(has_config)) { res = KSI_Config_new(ctx, &pdu->confResponse); ASSUME(res == KSI_OK); }
						if (ND_BOOL(has_response)) {
							res = KSI_AggregationResp_new(ctx, &pdu->response); ASSUME(res == KSI_OK);
							res = KSI_Integer_new(ctx, ND(u64, reply_id), &pdu->response->requestId); ASSUME(res == KSI_OK);
							res = KSI_Integer_new(ctx, ND(u64, reply_status), &pdu->response->status); ASSUME(res == KSI_OK);
						}
					}
					c13_KSI_AggregationPdu_table[0] = pdu;
				}
			}
			const int confBefore = (c->serverConf != NULL);
			KSI_AsyncHandle *out = NULL; size_t waiting = (size_t)-1;
			res = KSI_AsyncService_run(as, (op == 4) ? &out : NULL, &waiting);
			CHECK(res == KSI_OK, HN " a service round succeeds");
			if (c13_KSI_AggregationPdu_table[0] != NULL) { KSI_AggregationPdu_free(c13_KSI_AggregationPdu_table[0]); c13_KSI_AggregationPdu_table[0] = NULL; }  /* never taken */
			if (!confBefore && (c->serverConf != NULL || (out != NULL && out->state == KSI_ASYNC_STATE_PUSH_CONFIG_RECEIVED && out->aggrReq == NULL))) extraOwed++;   /* pushed configuration */
			if (out != NULL) {
				int idx = -1;
				for (unsigned j = 0; j < NOPS; j++) if (user[j] != NULL && user[j] == out) idx = (int)j;
				CHECK(out->state == KSI_ASYNC_STATE_ERROR || out->state == KSI_ASYNC_STATE_RESPONSE_RECEIVED || out->state == KSI_ASYNC_STATE_PUSH_CONFIG_RECEIVED, HN " returned handle is in a final state");
				if (idx >= 0) {
					for (unsigned j = 0; j < NOPS; j++) if ((int)j == idx) {
						CHECK(accepted[j] && !returned[j], HN " returned handle was accepted and not returned before");
						returned[j] = 1;
						if (owedReq[j]) CHECK(out->id == idrec[j], HN " returned request handle carries the id it was given");
					}
					if (out->state == KSI_ASYNC_STATE_RESPONSE_RECEIVED) { CHECK(out->respCtx != NULL, HN " answered handle carries its response"); sawResponse = 1; }
					if (out->state == KSI_ASYNC_STATE_ERROR && out->err == KSI_NETWORK_RECIEVE_TIMEOUT) sawTimeout = 1;
				} else {
					/* not a user handle: a configuration handle the library created */
					CHECK(extraOwed > 0, HN " a handle the caller never submitted is returned only for a configuration the library owes");
					CHECK(out->aggrReq == NULL || out->aggrReq->requestHash == NULL, HN " library-created handle is a configuration handle");
					if (extraOwed > 0) extraOwed--;
				}
				/* (the transport may still hold its reference to a returned handle: a configuration can arrive for a
				 * configuration request that is still queued; net_tcp_async.c:398 drops such entries at the next dispatch) */
				for (unsigned j = 0; j < NOPS; j++) if ((int)j == idx) user[j] = NULL;
				KSI_AsyncHandle_free(out);     /* the caller is done with it */
			}
			size_t owed = extraOwed;
			for (unsigned j = 0; j < NOPS; j++) if (accepted[j] && !returned[j]) owed += 1;
			CHECK(waiting == owed, HN " reported waiting count = handles accepted and not yet returned");
		}
		/* after every operation */
		{
			size_t owed = extraOwed, pend = 0, recv = 0;
			int cachedAll = 1;
			for (unsigned j = 0; j < NOPS; j++) if (accepted[j] && !returned[j]) {
				owed += 1;
				int found = (c->serverConf == user[j]);
				for (size_t i = 1; i < CACHE_S; i++) if (c->reqCache[i] == user[j]) found = 1;
				if (!found) cachedAll = 0;
			}
			CHECK(cachedAll, HN " every accepted handle not yet returned is still cached (never lost)");
			res = KSI_AsyncService_getPendingCount(as, &pend); ASSUME(res == KSI_OK);
			res = KSI_AsyncService_getReceivedCount(as, &recv); ASSUME(res == KSI_OK);
			CHECK(pend + recv == owed, HN " pending + received = handles accepted and not yet returned");
			c13_check_inv(c);
		}
	}
#ifdef EXPECT_RESPONSE
	if (sawResponse) WITNESS_POINT("a request was accepted, sent, answered and returned with its response");
#endif
#ifdef EXPECT_REFUSAL
	if (sawRefusal) WITNESS_POINT("a submission was refused because the cache was full");
#endif
#ifdef EXPECT_TIMEOUT
	if (sawTimeout) WITNESS_POINT("a sent request was returned with a receive timeout");
#endif
#ifdef EXPECT_REUSE
	if (sawReuse) WITNESS_POINT("a slot was re-used by a later request");
#endif
	WITNESS_POINT("history completed");
	KSI_AsyncService_free(as);
}
