/* C17 H-3: KSI_crc32 (crc32.c, table driven) - lemma route (DESIGN C17): a direct query over a whole symbolic
 * 29/41-byte message stalls the SAT solver (tried, see plan.json bound text), so the claim is decomposed.
 *
 * LEMMA 1  table:    for all r (32 bit), b:  crc32_table[(r ^ b) & 0xff] ^ (r >> 8)  ==  8 bitwise steps of the
 *                    reflected polynomial 0xEDB88320 applied to r ^ b; and through the real function:
 *                    KSI_crc32(&b, 1, iv) == step(iv ^ ~0, b) ^ ~0 for every 32-bit iv.
 * LEMMA 2  linear:   step(r1 ^ r2, b1 ^ b2) == step(r1, b1) ^ step(r2, b2)  (GF(2)-linearity of one table step).
 * LEMMA 3  chaining: KSI_crc32(d, n, iv) == KSI_crc32(d + 1, n - 1, KSI_crc32(d, 1, iv)) for n = NBYTES <= 3
 *                    (the loop does nothing but iterate the step; the xor-in / xor-out of consecutive calls cancel).
 * LEMMA 4  affine:   KSI_crc32(a ^ b, n, 0) == KSI_crc32(a, n, 0) ^ KSI_crc32(b, n, 0) ^ KSI_crc32(0.., n, 0), n <= 3.
 *   [hand, induction on the length from 1-3]: KSI_crc32(d, n, 0) is the reflected CRC-32 of d and, for every n,
 *   crc(D ^ E) = crc(D) ^ crc(E) ^ crc(0^n).  Hence for a publication M = D || crc(D) and an error pattern
 *   E = Ed || Ec over the whole binary string, M ^ E passes the CRC test iff  crc(Ed) ^ crc(0^n) == Ec:
 *   the SYNDROME test, independent of D.
 * LEMMA 5  syndrome: on the binary layout of NBYTES bytes (8 time + imprint + 4 CRC; 33 = 20-byte digest, 45 = SHA2-256,
 *                    61 = SHA2-384, 77 = SHA2-512) with base32 symbol j = bits 5j..5j+4 (H-2), for EVERY symbol
 *                    position and EVERY non-zero 5-bit difference - one symbol replaced by a different symbol
 *                    (KIND 1) or two adjacent different symbols swapped (KIND 2: the same non-zero difference at
 *                    positions j and j+1) - the error pattern either touches only the unused padding bits
 *                    after the last byte (identical data) or the real KSI_crc32 over zero data gives a syndrome
 *                    mismatch (the corrupted string is rejected).  Only position and difference are symbolic. */
#include "verif.h"
#include "internal.h"
#include "crc32.h"
#include "verif_post.h"
#include "c17_ref.h"
#include "crc32.c"

#ifndef LEMMA
#define LEMMA 1
#endif
#ifndef NBYTES
#define NBYTES 3
#endif

static unsigned real_step(unsigned r, u8 b) { return crc32_table[(r ^ b) & 0xff] ^ (r >> 8); }

void harness(void) {
#if LEMMA == 1
	unsigned r = ND(unsigned, r); u8 b = ND(u8, b);
	CHECK(real_step(r, b) == c17_crc_step_bitwise(r, b), "C17.H3 one table step = 8 bitwise steps of the reflected polynomial 0xEDB88320");
	unsigned long iv = ND(unsigned, iv);
	unsigned long got = KSI_crc32(&b, 1, iv);
	CHECK(got == ((c17_crc_step_bitwise((unsigned)iv ^ 0xFFFFFFFFu, b)) ^ 0xFFFFFFFFu), "C17.H3 KSI_crc32 of one byte = xor-in, one step, xor-out");
	if (r == 0x80000001u && b == 0x55) WITNESS_POINT("table step");
#elif LEMMA == 2
	unsigned r1 = ND(unsigned, r1), r2 = ND(unsigned, r2); u8 b1 = ND(u8, b1), b2 = ND(u8, b2);
	CHECK(real_step(r1 ^ r2, b1 ^ b2) == (real_step(r1, b1) ^ real_step(r2, b2)), "C17.H3 one table step is GF(2)-linear");
	if (r1 == 7 && b2 == 9) WITNESS_POINT("linear step");
#elif LEMMA == 3
	u8 d[NBYTES]; for (unsigned i = 0; i < NBYTES; i++) d[i] = ND(u8, d);
	unsigned long iv = ND(unsigned, iv);
	unsigned long whole = KSI_crc32(d, NBYTES, iv);
	unsigned long first = KSI_crc32(d, 1, iv);
	unsigned long rest = KSI_crc32(d + 1, NBYTES - 1, first);
	CHECK(whole == rest, "C17.H3 KSI_crc32 over n bytes = KSI_crc32 of the tail continued from the CRC of the first byte");
	CHECK(whole <= 0xFFFFFFFFul, "C17.H3 result fits 32 bits");
	CHECK(KSI_crc32(d, 0, iv) == iv, "C17.H3 empty input leaves the value unchanged");
	if (d[0] == 1 && iv == 0) WITNESS_POINT("chained");
#elif LEMMA == 4
	u8 a[NBYTES], b[NBYTES], x[NBYTES], z[NBYTES];
	for (unsigned i = 0; i < NBYTES; i++) { a[i] = ND(u8, a); b[i] = ND(u8, b); x[i] = a[i] ^ b[i]; z[i] = 0; }
	CHECK(KSI_crc32(x, NBYTES, 0) == (KSI_crc32(a, NBYTES, 0) ^ KSI_crc32(b, NBYTES, 0) ^ KSI_crc32(z, NBYTES, 0)), "C17.H3 KSI_crc32 is affine over GF(2): crc(a^b) = crc(a)^crc(b)^crc(0)");
	/* and it is the CRC-32 of the reference definition */
	CHECK(KSI_crc32(a, NBYTES, 0) == c17_crc32(a, NBYTES, NBYTES), "C17.H3 KSI_crc32 = bitwise reflected CRC-32 (short inputs)");
	if (a[0] == 0x31 && b[0] == 0x80) WITNESS_POINT("affine");
#elif LEMMA == 0
	/* the direct query (kept for the record; it is NOT part of the plan because it does not finish):
	 * symbolic data, valid checksum, one symbol replaced -> the checksum test must fail */
#define NSYMS0 ((8 * NBYTES + 4) / 5)
	u8 m[NBYTES];
	for (unsigned i = 0; i + 4 < NBYTES; i++) m[i] = ND(u8, d);
	unsigned long c0 = KSI_crc32(m, NBYTES - 4, 0);
	for (unsigned i = 0; i < 4; i++) m[NBYTES - 4 + i] = (u8)(c0 >> (8 * (3 - i)));
	unsigned pos0 = ND(unsigned, pos); u8 diff0 = ND(u8, diff);
	ASSUME(diff0 >= 1 && diff0 <= 31 && pos0 < NSYMS0);
	int changed = 0;
	for (unsigned i = 0; i < NBYTES; i++) {
		unsigned byte = 0;
		for (unsigned k = 0; k < 8; k++) { unsigned g = 8 * i + k; byte = (byte << 1) | ((g / 5 == pos0) ? ((diff0 >> (4 - g % 5)) & 1u) : 0u); }
		m[i] ^= (u8)byte; if (byte) changed = 1;
	}
	unsigned long st = ((unsigned long)m[NBYTES - 4] << 24) | ((unsigned long)m[NBYTES - 3] << 16) | ((unsigned long)m[NBYTES - 2] << 8) | m[NBYTES - 1];
	if (changed) CHECK(KSI_crc32(m, NBYTES - 4, 0) != st, "C17.H3 direct: a corrupted symbol fails the checksum test");
	WITNESS_POINT("direct query");
#elif LEMMA == 5
#ifndef KIND
#define KIND 1
#endif
#define NSYMS ((8 * NBYTES + 4) / 5)
	unsigned pos = ND(unsigned, pos); u8 diff = ND(u8, diff);
	ASSUME(diff >= 1 && diff <= 31);
#if KIND == 1
	ASSUME(pos < NSYMS);
#else
	ASSUME(pos + 1 < NSYMS);
#endif
	u8 e[NBYTES], z[NBYTES]; int nonzero = 0;
	for (unsigned i = 0; i < NBYTES; i++) {
		unsigned byte = 0;
		for (unsigned k = 0; k < 8; k++) {
			unsigned g = 8 * i + k;                       /* bit number in the stream, concrete */
			unsigned sym = g / 5, bit = 4 - g % 5;
			unsigned hit = (sym == pos) || (KIND == 2 && sym == pos + 1);
			byte = (byte << 1) | (hit ? ((diff >> bit) & 1u) : 0u);
		}
		e[i] = (u8)byte; z[i] = 0;
		if (byte != 0) nonzero = 1;
	}
	unsigned long stored_diff = ((unsigned long)e[NBYTES - 4] << 24) | ((unsigned long)e[NBYTES - 3] << 16) | ((unsigned long)e[NBYTES - 2] << 8) | e[NBYTES - 1];
	unsigned long syn = KSI_crc32(e, NBYTES - 4, 0) ^ KSI_crc32(z, NBYTES - 4, 0);
	if (nonzero) CHECK(syn != stored_diff, "C17.H3 a single-symbol substitution or adjacent swap that changes the data has a non-zero CRC syndrome");
	else {
		/* only padding bits after the last byte were touched: possible only in the last symbol */
		CHECK(pos == NSYMS - 1 && (8 * NBYTES) % 5 != 0, "C17.H3 only a change confined to the trailing padding bits leaves the data unchanged");
#if (8 * NBYTES) % 5 != 0 && KIND == 1
		WITNESS_POINT("difference confined to padding bits");
#endif
	}
	if (nonzero && pos == 0 && diff == 16) WITNESS_POINT("first symbol corrupted");
	if (nonzero && pos >= NSYMS - 3) WITNESS_POINT("corruption inside the CRC field");
#endif
}
