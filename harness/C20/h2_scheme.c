/* C20 H-2: getClientByUriScheme (net.c) is a case-insensitive map from the scheme text to the transport and the
 * replacement scheme, for EVERY string of SLEN characters (all characters symbolic, any byte value except NUL):
 *   ksi -> HTTP/"http", ksi+http -> HTTP/"http", ksi+https -> HTTP/"https", ksi+tcp -> TCP/none,
 *   file -> FILE/none, anything else (including a missing scheme) -> UNKNOWN and the replacement untouched.
 * Reference: own ASCII case folding and own table written from the property text.  KSI_strcasecmp is the real
 * one (compatibility.c) on top of CBMC's strcasecmp model (C locale); the native replay uses glibc's. */
#include "verif.h"
#include "internal.h"
#include "ctx.h"
#include "verif_post.h"
#include "net.c"
#ifndef SLEN
#define SLEN 3
#endif
static char fold(char c) { return (c >= 'A' && c <= 'Z') ? (char)(c + ('a' - 'A')) : c; }
static int same(const char *s, const char *lit, unsigned litlen) {
	if (litlen != SLEN) return 0;
	int eq = 1;
	for (unsigned i = 0; i < SLEN; i++) if (fold(s[i]) != lit[i]) eq = 0;
	return eq;
}
static int streq0(const char *a, const char *b, unsigned blen) { int eq = (a != NULL); for (unsigned i = 0; i <= blen; i++) if (eq && a[i] != b[i]) eq = 0; return eq; }
void harness(void) {
	char s[SLEN + 1];
	for (unsigned i = 0; i < SLEN; i++) { s[i] = (char)ND(u8, scheme_char); ASSUME(s[i] != 0); }
	s[SLEN] = 0;
	static const char marker[] = "untouched";
	const char *repl = marker;
	int c = getClientByUriScheme(s, &repl);
	int exp_c = URI_UNKNOWN; const char *exp_r = NULL;
	if (same(s, "ksi", 3)) { exp_c = URI_HTTP; exp_r = "http"; }
	else if (same(s, "ksi+http", 8)) { exp_c = URI_HTTP; exp_r = "http"; }
	else if (same(s, "ksi+https", 9)) { exp_c = URI_HTTP; exp_r = "https"; }
	else if (same(s, "ksi+tcp", 7)) { exp_c = URI_TCP; }
	else if (same(s, "file", 4)) { exp_c = URI_FILE; }
	CHECK(c == exp_c, "C20.H2 transport selected by the case-insensitive scheme table");
	if (exp_c == URI_UNKNOWN) {
		CHECK(repl == marker, "C20.H2 unknown scheme leaves the replacement untouched");
		WITNESS_POINT("unknown scheme");
	} else if (exp_r != NULL) {
		CHECK(streq0(repl, exp_r, exp_r[4] == 0 ? 4 : 5), "C20.H2 ksi schemes are replaced by http / https");
#if SLEN == 3 || SLEN == 8 || SLEN == 9
		if (s[0] == 'K') WITNESS_POINT("http-family scheme in upper case");
#endif
	} else {
		CHECK(repl == NULL, "C20.H2 tcp and file schemes have no replacement scheme");
#if SLEN == 7 || SLEN == 4
		if (s[0] >= 'a') WITNESS_POINT("tcp or file scheme");
#endif
	}
#if SLEN == 3
	/* missing scheme */
	repl = marker;
	CHECK(getClientByUriScheme(NULL, &repl) == URI_UNKNOWN && repl == marker, "C20.H2 missing scheme is unknown");
#endif
}
