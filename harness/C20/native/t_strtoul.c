#include <stdio.h>
#include <stdlib.h>
#include <string.h>
#define __CPROVER_assert(c, m) do { if (!(c)) { domain_viol++; } } while (0)
static unsigned long domain_viol;
#define strtoul model_strtoul_alias
#include "/verif/env/c20_strtoul.c"
#undef strtoul
int main(void) {
	static const char term[] = {0, '/', ':', '?', '#', 'a', 'x', ' ', '-', '+', '.', '@'};
	unsigned long n = 0, bad = 0;
	char s[16];
	for (int len = 0; len <= 6; len++) {
		long lim = 1; for (int k = 0; k < len; k++) lim *= 10;
		for (long v = 0; v < lim; v++) {
			for (unsigned t = 0; t < sizeof(term); t++) {
				if (len == 0 && (term[t] == ' ' || term[t] == '-' || term[t] == '+')) continue;   /* outside the model's domain */
				char fmt[16]; if (len) { snprintf(fmt, sizeof fmt, "%%0%dld", len); snprintf(s, sizeof s, fmt, v); } else s[0] = 0;
				s[len] = term[t]; s[len + 1] = 0;
				char *e1 = NULL, *e2 = NULL; domain_viol = 0;
				unsigned long a = c20_strtoul_model(s, &e1, 10), b = strtoul(s, &e2, 10);
				n++;
				if (a != b || e1 != e2 || domain_viol) { if (bad++ < 5) printf("MISMATCH '%s': model %lu/%ld glibc %lu/%ld dv=%lu\n", s, a, (long)(e1 - s), b, (long)(e2 - s), domain_viol); }
			}
		}
	}
	printf("strtoul model vs glibc: %lu strings compared, %lu mismatches\n", n, bad);
	return bad != 0;
}
