/* C19 H-4c: KSI_HashChain_aggregateCalendar (hashchain.c aggregateChain, calendar mode) under one allocation failure.
 * Chain of 2 links; input hash SHA-1 sized; link 1 is a LEFT link whose imprint has ANOTHER algorithm (SHA2-256), so the
 * hasher is re-opened in the middle of the chain (hashchain.c "Update hasher if algo id has changed").  Digests symbolic.
 * UNSUP=1: the left link's algorithm is one the hash back end does not provide (here: SHA3-256 under the hash model, which
 * like the OpenSSL back end refuses it with KSI_UNAVAILABLE_HASH_ALGORITHM) - the same error path reached by INPUT alone. */
#include "c19.h"
#include "impl/hashchain_impl.h"
#include "hash_model.h"
#include "verif_post.h"
#ifndef UNSUP
#define UNSUP 0
#endif
void KSI_MetaDataElement_free(KSI_MetaDataElement *t) { CHECK(t == NULL, "C19.H4c stub: no metadata element exists in this scenario"); }
static void add_link(KSI_CTX *ctx, KSI_LIST(KSI_HashChainLink) *lst, int isLeft, int alg, unsigned dl) {
	KSI_HashChainLink *link = NULL; int res; u8 d[32];
	for (unsigned i = 0; i < 32; i++) d[i] = ND(u8, sib);
	res = KSI_HashChainLink_new(ctx, &link); ASSUME(res == KSI_OK);
	link->isLeft = isLeft;
	res = KSI_DataHash_fromDigest(ctx, alg, d, dl, &link->imprint); ASSUME(res == KSI_OK);
	res = KSI_HashChainLinkList_append(lst, link); ASSUME(res == KSI_OK);
}
void harness(void) {
	VERIF_ctx_init(); VERIF_hm_init(0); KSI_CTX *ctx = VERIF_ctx; int res;
	u8 d[20]; for (int i = 0; i < 20; i++) d[i] = ND(u8, d);
	KSI_DataHash *in = NULL, *out = NULL, *out2 = NULL;
	KSI_LIST(KSI_HashChainLink) *chain = NULL;
	res = KSI_DataHash_fromDigest(ctx, KSI_HASHALG_SHA1, d, 20, &in); ASSUME(res == KSI_OK);
	res = KSI_HashChainLinkList_new(&chain); ASSUME(res == KSI_OK);
	add_link(ctx, chain, 0, KSI_HASHALG_SHA1, 20);                                 /* right link: hashed with the input's algorithm */
	add_link(ctx, chain, 1, UNSUP ? KSI_HASHALG_SHA3_256 : KSI_HASHALG_SHA2_256, 32);   /* left link of another algorithm: hasher re-opened */
	C19_ARM();
	res = KSI_HashChain_aggregateCalendar(ctx, chain, in, &out);
	C19_DISARM();
#if UNSUP
	CHECK(res != KSI_OK && out == NULL, "C19.H4c a calendar chain that switches to an algorithm the back end lacks is refused (no crash, no double free)");
	WITNESS_POINT("unsupported algorithm in a later left link refused");
#else
	C19_OUTCOME(res, out != NULL);
	if (res != KSI_OK) CHECK(out == NULL, "C19.H4c no root on failure");
#ifndef NORETRY
	res = KSI_HashChain_aggregateCalendar(ctx, chain, in, &out2);
	CHECK(res == KSI_OK && out2 != NULL, "C19.H4c the operation repeated without fault succeeds");
	{ KSI_HashAlgorithm a = 0; KSI_DataHash_extract(out2, &a, NULL, NULL); CHECK(a == KSI_HASHALG_SHA2_256, "C19.H4c the root carries the algorithm of the last left link"); }
#endif
#endif
	KSI_DataHash_free(out); KSI_DataHash_free(out2); KSI_DataHash_free(in);
	KSI_HashChainLinkList_free(chain);
	WITNESS_POINT("calendar chain scenario finished");
#if !UNSUP && FAULT_AT >= 1 && FAULT_AT <= 6
	if (VERIF_fault_hit) WITNESS_POINT("fault was injected");
#endif
}
