#!/usr/bin/env python3
"""Regenerates /verif/harness/C15/plan.json (instance enumeration).  Run: python3 mkplan.py"""
import json, os, itertools


def shapes(n, kind):
    """every scenario shape for n endpoints: who accepts, whose reply is valid, in which round each copy returns"""
    out = []
    for acc in itertools.product((0, 1), repeat=n):
        for val in itertools.product((0, 1), repeat=n):
            if any(v and not a for a, v in zip(acc, val)):
                continue        # outcome of a refusing endpoint is irrelevant
            for rd in itertools.product(range(n), repeat=n):
                if any(r and not a for a, r in zip(acc, rd)):
                    continue
                pad = lambda t: ",".join(map(str, list(t) + [0] * (3 - n)))
                lab = "n%d_a%s_v%s_r%s" % (n, "".join(map(str, acc)), "".join(map(str, val)), "".join(map(str, rd)))
                if kind == 2:
                    # shapes that exposed F15 (repaired in 506fa41), by arrival order (round, then endpoint index); the label
                    # prefix is kept so that a regression shows up under a recognisable name:
                    #   f15_  : a valid configuration precedes a failure (the later failure fails the user handle)
                    #   f15b_ : failure, valid configuration, then another valid configuration (the handle keeps state
                    #           ERROR with cleared error fields; the next configuration reply is dropped)
                    order = [val[i] for _, i in sorted((rd[i], i) for i in range(n) if acc[i])]
                    f15 = any(order[j] and not order[k] for j in range(len(order)) for k in range(j + 1, len(order)))
                    f15b = any((not order[j]) and order[k] and order[l] for j in range(len(order)) for k in range(j + 1, len(order)) for l in range(k + 1, len(order)))
                    if f15: lab = "f15_" + lab
                    elif f15b: lab = "f15b_" + lab
                d = ["NSUB=%d" % n, "KIND=%d" % kind, "ACCEPT={%s}" % pad(acc), "VALID={%s}" % pad(val), "ROUND={%s}" % pad(rd)]
                if not any(acc):
                    d.append("SHAPE_ALL_REFUSE=1")
                out.append({"label": lab, "defines": d})
    return out


def recycled(kind):
    """the same machine on a RECYCLED KSI_HighAvailabilityRequest wrapper that was released with 2 replies outstanding
    (ctx->haRequestRecycle active): all endpoints fail / one answers"""
    out = []
    for val, rd in (((0, 0), (0, 0)), ((0, 0), (1, 0)), ((0, 1), (0, 1))):
        pad = lambda t: ",".join(map(str, list(t) + [0]))
        out.append({"label": "recycled_n2_a11_v%s_r%s" % ("".join(map(str, val)), "".join(map(str, rd))),
                    "defines": ["NSUB=2", "KIND=%d" % kind, "ACCEPT={1,1,0}", "VALID={%s}" % pad(val), "ROUND={%s}" % pad(rd), "RECYCLE_STALE=2"]})
    return out


def retried(kind):
    """the same machine for a handle that is RE-ADDED after it failed (it still carries state ERROR and the last error):
    two accepting endpoints, every validity pattern and arrival order"""
    out = []
    pad = lambda t: ",".join(map(str, list(t) + [0]))
    for val in itertools.product((0, 1), repeat=2):
        for rd in itertools.product((0, 1), repeat=2):
            out.append({"label": "retry_n2_a11_v%s_r%s" % ("".join(map(str, val)), "".join(map(str, rd))),
                        "defines": ["NSUB=2", "KIND=%d" % kind, "ACCEPT={1,1,0}", "VALID={%s}" % pad(val), "ROUND={%s}" % pad(rd), "RETRY=1"]})
    return out


def machine(name, kind, functions, what):
    return {
        "name": name, "src": "h1_request.c", "env": ["ctx", "list_wrap", "fmt_stub"], "tus": [], "unwind": 6, "timeout": 600, "max_replays": 8,
        "unwindset": ["KSI_AsyncHandle_free:5", "KSI_HighAvailabilityRequest_free:5", "KSI_AsyncHandle_cleanup:5"],
        "restrict_fp": ["KSI_AsyncHandle_cleanup.function_pointer_call.1/reply_free",
                        "KSI_AsyncHandle_cleanup.function_pointer_call.2/KSI_HighAvailabilityRequest_free,KSI_AsyncHandle_free"],
        "functions": functions,
        "bound": what + " forwarded to n endpoints; scenario shape concrete per instance and enumerated exhaustively by the driver: which endpoints accept, which replies are valid, the round in which each copy returns "
                 "(rounds x endpoint order realise every arrival order); quick n = 1, 2 (28 shapes), thorough n = 1..3 (371 shapes); external error codes symbolic, error codes three fixed different values",
        "instances": shapes(1, kind) + shapes(2, kind) + recycled(kind) + retried(kind),
        "thorough": {"instances": shapes(1, kind) + shapes(2, kind) + shapes(3, kind) + recycled(kind) + retried(kind), "timeout": 1200},
    }


hs = [
    machine("h1_request", 1,
            ["KSI_SigningHighAvailabilityService_new", "KSI_AbstractHighAvailabilityService_new", "KSI_HighAvailabilityService_addRequest", "KSI_HighAvailabilityService_run", "responseHandler", "handleReqResponse",
             "handleErrorResponse", "KSI_HighAvailabilityService_reportErrorNotice", "KSI_HighAvailabilityRequest_new", "KSI_HighAvailabilityRequest_free", "KSI_HighAvailabilityService_getPendingCount",
             "KSI_HighAvailabilityService_getReceivedCount", "KSI_AsyncService_addRequest", "KSI_AsyncService_run", "KSI_AbstractAsyncHandle_new", "KSI_AsyncHandle_free", "KSI_AsyncHandle_setRequestCtx"],
            "one signing request"),
    machine("h2_confreq", 2,
            ["KSI_HighAvailabilityService_addRequest", "KSI_HighAvailabilityService_run", "KSI_HighAvailabilityService_setOption", "responseHandler", "handleConfigResponse", "handleErrorResponse",
             "KSI_HighAvailabilityService_reportErrorNotice", "KSI_AsyncHandle_getConfig"],
            "one configuration request (consolidation and announcement through callback stubs)"),
    {
        "name": "h4_recycle", "src": "h4_recycle.c", "env": ["ctx", "list_wrap", "fmt_stub"], "tus": [], "unwind": 6, "timeout": 300,
        "unwindset": ["KSI_AsyncHandle_free:4", "KSI_HighAvailabilityRequest_free:4", "KSI_AsyncHandle_cleanup:4"],
        "functions": ["KSI_HighAvailabilityRequest_new", "KSI_HighAvailabilityRequest_free"],
        "bound": "one KSI_HighAvailabilityRequest released through KSI_HighAvailabilityRequest_free with ARBITRARY expected-reply count and flags (with / without a user handle, concrete per instance) into ctx->haRequestRecycle, then re-constructed",
        "instances": [{"label": "with_handle", "defines": ["OLD_HAS_HANDLE=1"]}, {"label": "no_handle", "defines": ["OLD_HAS_HANDLE=0"]}],
    },
    {
        "name": "h3_consolidate", "src": "h3_consolidate.c", "env": ["ctx", "list_wrap", "fmt_stub"], "tus": ["types"], "unwind": 4, "timeout": 300, "max_replays": 12, "object_bits": 12,
        "functions": ["KSI_AbstractHighAvailabilityService_new", "KSI_HighAvailabilityService_consolidateConfig", "KSI_Config_consolidateMaxLevel", "KSI_Config_consolidateAggrAlgo", "KSI_Config_consolidateAggrPeriod",
                      "KSI_Config_consolidateMaxRequests", "KSI_Config_consolidateCalendarFirstTime", "KSI_Config_consolidateCalendarLastTime", "KSI_Config_consolidateParentUri", "isMaxLevelValid", "isAggrPeriodValid",
                      "isMaxRequestsValid", "isCalendarTimeValid", "KSI_Config_new", "KSI_Config_free", "KSI_Config_setMaxLevel", "KSI_Config_getMaxLevel", "KSI_Integer_compare", "KSI_Integer_getUInt64", "KSI_Integer_free"],
        "bound": "sequences of 2 (quick also 3, thorough 4) pushed configurations; each of the five numeric fields independently absent or ANY 64-bit value; second service instance fed the same configurations in a symbolic permutation; "
                 "hash-algorithm field present with symbolic value and trust verdict in the *_algo instances",
        "instances": [{"label": "n2", "defines": ["NCFG=2"]}, {"label": "n2_algo", "defines": ["NCFG=2", "WITH_ALGO=1"]}, {"label": "n3", "defines": ["NCFG=3"]}],
        "thorough": {"instances": [{"label": "n2", "defines": ["NCFG=2"]}, {"label": "n2_algo", "defines": ["NCFG=2", "WITH_ALGO=1"]}, {"label": "n3", "defines": ["NCFG=3"]},
                                   {"label": "n3_algo", "defines": ["NCFG=3", "WITH_ALGO=1"]}, {"label": "n4", "defines": ["NCFG=4"]}], "timeout": 1800},
    },
]

plan = {
 "property": "C15",
 "outside": "more than 3 endpoints; more than one user request in flight at a time (requests are independent objects in net_ha.c: per-request state lives in KSI_HighAvailabilityRequest); more than 4 pushed configurations; "
            "the sub-services themselves (C13) and their transports (C14); parent-URI lists; allocation failure; KSI_AsyncService_addEndpoint / setEndpoint (URI handling, C20)",
 "assumptions": [
  "sub-service stub (H-1/H-2): KSI_AsyncService objects whose addRequest accepts (takes ownership of the forwarded copy, state WAITING_FOR_DISPATCH, parentId = endpoint id) or refuses, and whose run hands the copy back once, as RESPONSE_RECEIVED / PUSH_CONFIG_RECEIVED with a response object or as ERROR with an error code - the observable contract of a C13 service",
  "payload objects of H-1/H-2 (KSI_AggregationReq incl. clone, KSI_AggregationResp, KSI_Config, KSI_Integer, KSI_Utf8String) are the reference-counted models of harness/common/c13_model.h; handles are the REAL net_async.c handles (KSI_AbstractAsyncHandle_new, _free, _ref, setRequestCtx ...)",
  "H-2: consolidation and announcement go through user callbacks (KSI_ASYNC_OPT_CONF_CONSOLIDATE_CALLBACK / PUSH_CONF_CALLBACK stubs returning KSI_OK); the built-in consolidation is H-3's subject",
  "H-3: real types.c KSI_Config and real types_base.c KSI_Integer functions; the KSI_Integer objects fed in are built as KSI_Integer_new builds them for values outside the 256-entry small-integer pool (heap object, ref 1) also for small values - every function used treats both alike except that pool members are never released",
  "H-3: KSI_isHashAlgorithmTrusted is a stub with a symbolic verdict (hash.c not linked); parent-URI lists absent",
  "KSI_AbstractAsyncService_new (net.c) modelled as plain allocation with all callbacks NULL; handle and HA-request recycling lists off (every release is a real free) except in H-4 and the recycled_* instances of H-1/H-2, where ctx->haRequestRecycle is a real list",
  "typed lists of KSI_AsyncHandle / KSI_AsyncService / KSI_HighAvailabilityRequest instantiated in the harness with the same KSI_IMPLEMENT_LIST lines as types.c:201-203 over the real list.c",
  "function-pointer restrictions (destructor call sites of KSI_AsyncHandle_cleanup) are proof obligations inserted by goto-instrument, not assumptions"
 ],
 "manifest": {
  "claimed": True,
  "level_text": "(1) Per-request machine: for every scenario shape with 1..2 (thorough 1..3) endpoints - which endpoints accept, which replies are valid, every arrival order - the real net_ha.c forwards a copy to every endpoint, returns the endpoint's error and keeps nothing if all refuse, "
                "hands the user handle back exactly once (first valid reply wins with its response and origin, later replies discarded; ERROR only after the last accepted copy failed), reports every failed endpoint exactly once (error notice or the handle's own error) and brings the "
                "expected-reply counter to 0; the same monitor for configuration requests. (2) Consolidation: for every sequence of 2..3 (thorough 4) configurations with each numeric field absent or any 64-bit value, the consolidated configuration equals the independent reference "
                "(max level 1..20, min period 100..20000, max requests 1..16000, earliest first time / latest last time >= 1136073600, out-of-range ignored) after every step, the change flag is exact, and a second service fed a symbolic permutation ends in the same state. "
                "Defects found and repaired in /repo: F10 (range predicates used || - every value accepted; e1662f3), F11 (calendar last time range-checked only when before the consolidated first time; b21e020), "
                "F15 (a configuration request was failed by an endpoint error arriving after another endpoint's valid configuration, and with three endpoints a configuration reply after failure+configuration was dropped; 506fa41) - see FINDINGS.md. "
                "The check passes on the repaired tree without known-finding exceptions.",
  "level_note": "Trusted base: sub-service stub, payload models, callback stubs, KSI_Integer construction outside the small-integer pool, hash-algorithm trust stub (plan.json assumptions). Scenario shapes of the request machine are enumerated concretely by the driver (values symbolic only for external error codes); "
                "the hash-algorithm and parent-URI fields are 'last value wins' by design and excluded from the order-independence claim. Outside: > 3 endpoints, several requests interleaved, > 4 configurations, endpoint set-up, allocation failure."
 },
 "harnesses": hs
}
json.dump(plan, open(os.path.join(os.path.dirname(os.path.abspath(__file__)), "plan.json"), "w"), indent=1)
print([(h["name"], len(h["instances"]), len(h.get("thorough", {}).get("instances", []))) for h in hs])
