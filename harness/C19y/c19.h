/* C19 common: single allocation failure at a concrete index FAULT_AT (enumerated by the driver, 1..NMAX,
 * NMAX >= the number of allocations of the operation; 0 = fault-free).  All TUs are compiled with
 * -DVERIF_FAULT_ALLOC so that KSI_malloc / KSI_calloc / KSI_new count allocations and fail the FAULT_AT-th.
 * Decided by CBMC: no double free, no use of freed memory, no out-of-bounds access (built-in checks),
 * no leak (--memory-leak-check after the harness has freed what the API contract says the caller owns),
 * result is an error or the fault-free result, and the same operation repeated without fault succeeds. */
#ifndef C19_H_
#define C19_H_
#include "verif.h"
#include "internal.h"
#include "ctx.h"
#ifndef FAULT_AT
#define FAULT_AT 0
#endif
#define C19_ARM() do { VERIF_alloc_count = 0; VERIF_fault_hit = 0; VERIF_fault_at = FAULT_AT; } while (0)
#define C19_DISARM() do { VERIF_fault_at = 0; } while (0)
/* after the faulted run: res is the status of the operation as a whole */
#define C19_OUTCOME(res, okcond) do { \
	if (VERIF_fault_hit) { CHECK((res) != KSI_OK || (okcond), "C19 with a failed allocation the call reports an error or still delivers the correct result"); } \
	else { CHECK((res) == KSI_OK && (okcond), "C19 without a fault the operation succeeds with the expected result"); } } while (0)
#endif
