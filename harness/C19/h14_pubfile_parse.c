/* C19 H-14c: KSI_PublicationsFile_parse / KSI_PublicationsFile_free under allocation failure (c19.h conventions: the FAULT_AT-th
 * allocation of the faulted call fails; FAULT_AT concrete per instance, 0 = fault-free).
 * Input: a SMALL synthetic file  "KSIPUBLF" || header 0x0701 || certificate record 0x0702 || publication record 0x0703 ||
 * signature 0x0704, payload lengths 3, 2, 4, 5 (a non-empty payload is one nested element "0x5f len bytes.."); the
 * non-critical / forward flag of every record and all payload bytes are symbolic.
 * Set-up as in C18 h1_structure (same real code, same cuts):
 *   real: KSI_PublicationsFile_parse, generateNextTlv, KSI_PublicationsFile_new / _free and the file-level template rows
 *         (publicationsfile.c, included), tlv.c (included), the template engine (tlv_template.c: extractGenerator, extractComposite,
 *         extractObject, storeObjectValue), list.c, record constructors / destructors (types.c), KSI_PKISignature_fromTlv
 *         (pkitruststore.c), KSI_PublicationsFile_verify / getSignedDataLength;
 *   stubbed: record INTERNALS (one-row stub sub-templates: C10's subject), PKCS#7 parsing and verification
 *         (env/c18_pki_model.c, allocating with plain malloc: third-party allocations are outside C19), and the byte-level
 *         header decoder KSI_FTLV_memRead, cut WITH proof obligation exactly as in C18 h1 (README lesson 12).
 * The fault-free parse performs NALLOC allocations (pinned by a CHECK in every instance that does not hit the fault);
 * instances k = 0 .. NALLOC + 1.
 * Decided by CBMC (and ASan / LeakSanitizer in the native replay), for every k:
 *   - the faulted parse reports an error or delivers the complete fault-free file object; on error the output pointer is
 *     untouched and everything built so far has been released (leak check on; the generator's pending element, the record
 *     copy, the lists, the half-built file object: no double free, no use after free);
 *   - the same parse repeated without fault succeeds (iff the PKI model lets the signature bytes parse) and the object is
 *     complete: header, 1 certificate record, 1 publication record, signature, private copy of exactly the input bytes,
 *     signedDataLength = offset of the signature record; verification hands exactly that range to the PKI layer;
 *   - a parse that succeeded DESPITE the fault (does not happen: every allocation is needed) would have to be complete too;
 *   - KSI_PublicationsFile_free of every object obtained (order chosen by the solver) leaves nothing behind.
 *
 * MUTATIONS caught (scratch worktree, on top of the clone fix, each reverted afterwards):
 *   M6 parse: cleanup no longer releases the generator's pending element (KSI_TLV_free(gen.tlv))  => leak (every instance)
 *   M7 generateNextTlv: `buf = NULL` dropped after the element took over the record copy           => double free / use after free (k0) */
#include "c19.h"
#include "impl/publicationsfile_impl.h"
#include "impl/ctx_impl.h"
#include "tlv_template.h"
#include "fast_tlv.h"
#include "c18_pki_model.h"
#include "verif_post.h"

#ifndef NALLOC
#define NALLOC 31
#endif

/* ---- stub sub-templates (record internals) ---- */
static int stub_get(const void *o, void **v) { (void)o; *v = NULL; return KSI_OK; }
static int stub_set(void *o, void *v) { (void)o; (void)v; return KSI_OK; }
static int stub_fromTlv(KSI_TLV *tlv, void **o) { (void)tlv; *o = NULL; return KSI_OK; }
static void stub_free(void *o) { (void)o; }
#define STUB_TEMPLATE(name) const KSI_TlvTemplate name[] = { \
	KSI_TLV_OBJECT(0x01, KSI_TLV_TMPL_FLG_NONE, stub_get, stub_set, stub_fromTlv, NULL, stub_free, "stub") KSI_END_TLV_TEMPLATE
STUB_TEMPLATE(H14_stub_header_template)
STUB_TEMPLATE(H14_stub_cert_template)
STUB_TEMPLATE(H14_stub_pub_template)

static int cut_memRead(const unsigned char *m, size_t l, KSI_FTLV *t);
#define KSI_FTLV_memRead cut_memRead
#include "tlv.c"
#define KSI_PublicationsHeader_template H14_stub_header_template
#define KSI_CertificateRecord_template H14_stub_cert_template
#define KSI_PublicationRecord_template H14_stub_pub_template
#include "publicationsfile.c"
#undef KSI_PublicationsHeader_template
#undef KSI_CertificateRecord_template
#undef KSI_PublicationRecord_template
#undef KSI_FTLV_memRead

#define NREC 4
#define MAXBUF 48
static const unsigned tags[NREC] = {0x0701, 0x0702, 0x0703, 0x0704};
static const unsigned pls[NREC] = {3, 2, 4, 5};

/* the cut of C18 h1_structure: runs the REAL KSI_FTLV_memRead, CHECKs that it reports exactly what was generated at that
 * position, returns those constants with the real (symbolic) flags */
static const u8 *cur_raw; static unsigned cur_off[NREC + 1], cur_rec;
static int cut_memRead(const unsigned char *m, size_t l, KSI_FTLV *t) {
#ifdef REPLAY
	return KSI_FTLV_memRead(m, l, t);
#else
	KSI_FTLV real;
	int res = KSI_FTLV_memRead(m, l, &real);
	unsigned e_hdr = 0, e_dat = 0, e_tag = 0; int known = 0;
	size_t o = __CPROVER_POINTER_OFFSET(m);
	if (__CPROVER_same_object(m, cur_raw)) {
		for (unsigned i = 0; i < NREC; i++) if (o == cur_off[i]) { known = 1; cur_rec = i; e_hdr = 4; e_dat = pls[i]; e_tag = tags[i]; }
	} else {
		if (o == 0) { known = 1; e_hdr = 4; e_dat = pls[cur_rec]; e_tag = tags[cur_rec]; }
		else if (o == 4) { known = 1; e_hdr = 2; e_dat = pls[cur_rec] - 2; e_tag = 0x1f; }
	}
	int e_ok = known && l >= e_hdr + e_dat;
	CHECK(known, "C19.H14c [cut] every position the TLV reader is applied to is a record, its copy or its nested element");
	CHECK((res == KSI_OK) == e_ok && (res == KSI_OK || res == KSI_INVALID_FORMAT), "C19.H14c [cut] KSI_FTLV_memRead accepts exactly the complete elements of the generated input");
	if (res == KSI_OK) CHECK(real.off == 0 && real.hdr_len == e_hdr && real.dat_len == e_dat && real.tag == e_tag, "C19.H14c [cut] KSI_FTLV_memRead reports the tag, header and payload length generated at this position");
	if (!e_ok) return KSI_INVALID_FORMAT;
	t->off = 0; t->hdr_len = e_hdr; t->dat_len = e_dat;
	t->tag = e_tag; t->is_nc = real.is_nc; t->is_fwd = real.is_fwd;
	return KSI_OK;
#endif
}

static u8 buf[MAXBUF]; static unsigned total, sig_off;
static int complete(KSI_CTX *ctx, KSI_PublicationsFile *pf, const u8 *raw) {
	size_t sdl = 0;
	if (pf == NULL || pf->ref != 1 || pf->ctx != ctx) return 0;
	int ok = (KSI_PublicationsFile_getSignedDataLength(pf, &sdl) == KSI_OK && sdl == sig_off);
	if (pf->raw == NULL || pf->raw == raw || pf->raw_len != total) return 0;
	for (unsigned i = 0; i < MAXBUF; i++) if (i < total && pf->raw[i] != buf[i]) ok = 0;
	if (pf->header == NULL || pf->signature == NULL || pf->certConstraints != NULL) ok = 0;
	if (KSI_CertificateRecordList_length(pf->certificates) != 1 || KSI_PublicationRecordList_length(pf->publications) != 1) ok = 0;
	return ok;
}

void harness(void) {
	VERIF_ctx_init(); VERIF_pki_init(); KSI_CTX *ctx = VERIF_ctx; int res;
	/* ---- the input ---- */
	static const char magic[8] = {'K', 'S', 'I', 'P', 'U', 'B', 'L', 'F'};
	unsigned n = 0;
	for (unsigned i = 0; i < 8; i++) buf[n++] = (u8)magic[i];
	for (unsigned i = 0; i < NREC; i++) {
		unsigned fl = (ND_BOOL(noncritical_flag) ? 0x40u : 0u) | (ND_BOOL(forward_flag) ? 0x20u : 0u);
		cur_off[i] = n;
		buf[n++] = (u8)(0x80 | fl | (tags[i] >> 8)); buf[n++] = (u8)(tags[i] & 0xff); buf[n++] = 0; buf[n++] = (u8)pls[i];
		buf[n++] = 0x5f; buf[n++] = (u8)(pls[i] - 2);
		for (unsigned j = 2; j < pls[i]; j++) buf[n++] = ND(u8, payload_byte);
	}
	cur_off[NREC] = n; total = n; sig_off = cur_off[NREC - 1];
	u8 *raw = verif_buf_alloc(total);
	for (unsigned i = 0; i < MAXBUF; i++) if (i < total) raw[i] = buf[i];
	cur_raw = raw; cur_rec = 0;

	/* ---- the faulted parse ---- */
	static KSI_PublicationsFile sentinel_obj;
	KSI_PublicationsFile *const untouched = &sentinel_obj;
	KSI_PublicationsFile *pf1 = untouched, *pf2 = untouched;
	C19_ARM();
	res = KSI_PublicationsFile_parse(ctx, raw, total, &pf1);
	C19_DISARM();
	const unsigned allocs1 = VERIF_alloc_count;
	const int asked1 = (VERIF_pki_sig_der_ok != -1), der1 = (VERIF_pki_sig_der_ok == 1);
	if (asked1 && !der1) {
		CHECK(res != KSI_OK, "C19.H14c signature bytes the PKI layer cannot parse are refused");
#if FAULT_AT == 0
		WITNESS_POINT("unparsable signature refused, everything released");
#endif
	} else {
		C19_OUTCOME(res, pf1 != untouched && complete(ctx, pf1, raw));
		if (!VERIF_fault_hit) CHECK(allocs1 == NALLOC, "C19.H14c the fault-free parse of this file performs exactly NALLOC allocations (enumeration complete)");
	}
	if (res != KSI_OK) CHECK(pf1 == untouched, "C19.H14c a failed parse leaves the output pointer untouched");
	if (res != KSI_OK || pf1 == untouched) pf1 = NULL;
	CHECK(VERIF_pki_sig_new_calls <= 1 && VERIF_pki_sig_freed == ((pf1 == NULL && asked1 && der1) ? 1u : 0u),
		"C19.H14c a failed parse releases the signature object it obtained from the PKI layer (exactly once)");

	/* ---- the same parse without fault ---- */
	VERIF_pki_sig_der_ok = -1; cur_rec = 0;
	res = KSI_PublicationsFile_parse(ctx, raw, total, &pf2);
	const int der2 = (VERIF_pki_sig_der_ok == 1);
	CHECK(VERIF_pki_sig_der_ok != -1 && (res == KSI_OK) == der2, "C19.H14c parse repeated without fault: accepted iff the signature bytes parse");
	if (res == KSI_OK) CHECK(pf2 != untouched && pf2 != pf1 && complete(ctx, pf2, raw), "C19.H14c parse repeated without fault gives the complete fault-free file object");
	else CHECK(pf2 == untouched, "C19.H14c refusal leaves the output pointer untouched");
	if (res != KSI_OK || pf2 == untouched) pf2 = NULL;

	/* ---- the object is usable: the signed range reaches the PKI layer ---- */
	if (pf2 != NULL) {
		int v = KSI_PublicationsFile_verify(pf2, ctx);
		CHECK(VERIF_pki_last.count == 1 && VERIF_pki_last.data == pf2->raw && VERIF_pki_last.data_len == sig_off && VERIF_pki_last.signature == pf2->signature && v == VERIF_pki_last.verdict,
			"C19.H14c verification of the re-parsed file passes exactly the bytes before the signature record and the parsed signature to the PKI layer");
	}

	/* ---- release ---- */
	if (ND_BOOL(free_first_first)) { KSI_PublicationsFile_free(pf1); KSI_PublicationsFile_free(pf2); }
	else { KSI_PublicationsFile_free(pf2); KSI_PublicationsFile_free(pf1); }
	KSI_PKITruststore_free(ctx->pkiTruststore); ctx->pkiTruststore = NULL;     /* created on demand by verify; owned by the context */
	verif_buf_free(raw, total);
	WITNESS_POINT("parse scenario finished");
#if FAULT_AT >= 1 && FAULT_AT <= NALLOC
	if (VERIF_fault_hit && pf2 != NULL) WITNESS_POINT("fault was injected and the repeated parse succeeded");
#elif FAULT_AT > NALLOC
	CHECK(!VERIF_fault_hit, "C19.H14c the enumeration of allocation indices is complete (no allocation beyond NALLOC)");
#endif
}
