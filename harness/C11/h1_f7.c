/* C11 H-1 (history twin of h1_cache): the three-call scenario through the public API only, no ghost references:
 *   1. KSI_AggregationHashChain_aggregate at level a succeeds, the caller releases the returned root;
 *   2. a call at level b != a fails (level out of range for this chain);
 *   3. a call at level a again.
 * Expected: call 3 succeeds and returns the same root as call 1, and no released object is touched (CBMC's
 * deallocated-object checks / ASan in the replay).  Candidate defect F7: call 2 releases the cached outputHash
 * (hashchain.c:1023) but keeps the pointer; call 3 then hands out the released object. */
#include "verif.h"
#include "internal.h"
#include "impl/hashchain_impl.h"
#include "impl/hash_impl.h"
#include "ctx.h"
#include "verif_post.h"
#include "c11_chain.h"
extern int VERIF_hd_overflow;
/* the link of c11_mk_chain has an imprint sibling: no metadata object to release */
void KSI_MetaDataElement_free(KSI_MetaDataElement *m) { CHECK(m == NULL, "C11.H1f7 harness chain has no metadata sibling"); }

void harness(void) {
	VERIF_ctx_init();
	KSI_CTX *ctx = VERIF_ctx; int res; unsigned k;
	KSI_AggregationHashChain *aggr = c11_mk_chain(ctx);
	int a = ND(int, level_a), b = ND(int, level_b), end1 = -1, end2 = -1, end3 = -1;
	KSI_DataHash *r1 = NULL, *r2 = NULL, *r3 = NULL;
	u8 imp1[33];

	ASSUME(a >= 0 && a <= 0xff && b >= 0 && b <= 0xff && a != b);
	res = KSI_AggregationHashChain_aggregate(aggr, a, &end1, &r1);
	ASSUME(res == KSI_OK);                                  /* scenario: the first call succeeds */
	for (k = 0; k < 33; k++) imp1[k] = r1->imprint[k];
	KSI_DataHash_free(r1);                                  /* the caller is done with the root */

	res = KSI_AggregationHashChain_aggregate(aggr, b, &end2, &r2);
	ASSUME(res != KSI_OK);                                  /* scenario: the second call fails */
	CHECK(r2 == NULL, "C11.H1f7 no root on failure");

	res = KSI_AggregationHashChain_aggregate(aggr, a, &end3, &r3);
	CHECK(res == KSI_OK && end3 == end1, "C11.H1f7 aggregation at the first level succeeds again after a failed call at another level");
	if (res == KSI_OK) {
		int same = (r3 != NULL && r3->imprint_length == 33);
		for (k = 0; k < 33; k++) if (same && r3->imprint[k] != imp1[k]) same = 0;
		CHECK(same, "C11.H1f7 and returns the same root as before");
		CHECK(r3 != NULL && r3->ref == 2, "C11.H1f7 the returned root is referenced by the cache and by the caller");
		WITNESS_POINT("third call after a failed second call");
	}
	KSI_DataHash_free(r3);
	KSI_AggregationHashChain_free(aggr);                    /* releases the cached hash exactly once */
	CHECK(!VERIF_hd_overflow, "C11.H1f7 hash model capacity suffices");
}
