/* C06 H-1: hmac.c implements the RFC 2104 construction on top of the hash front end.
 *   HMAC(K, m) = H((K' ^ opad) || H((K' ^ ipad) || m)),  K' = K padded with zero bytes to the block size B,
 *   or H(K) padded when |K| > B;  ipad = 0x36 repeated, opad = 0x5c repeated.
 * The hash model records every byte stream that is hashed, so the property checked is the exact sequence of
 * hash computations:  [H(K) iff |K| > B] , (K' ^ ipad) || m , (K' ^ opad) || inner-digest , each with the requested
 * algorithm, and the returned imprint = algorithm id || last digest.
 * Shape (concrete per instance): algorithm ALG, key length KL, message length ML (split into two adds at SPLIT
 * when the incremental interface is used).  Symbolic: every key byte (1..255), every message byte, every digest byte.
 * Real code: hmac.c completely, hash.c front end.  Model: hash_model (variant U).
 *
 * strlen: hmac.c measures the key with strlen().  A symbolic scan would make the key length - and with it every
 * message length - symbolic, so under CBMC strlen is modelled as "returns KL" together with the proof obligation
 * that this IS the C string length of the argument (all KL bytes non-zero, byte KL zero).  The native replay uses
 * the C library's strlen. */
#include "verif.h"
#include "internal.h"
#include "hmac.h"
#include "impl/hash_impl.h"
#include "ctx.h"
#include "hash_model.h"
#include "verif_post.h"

#ifndef ALG
#define ALG KSI_HASHALG_SHA2_256
#endif
#ifndef KL
#define KL 5
#endif
#ifndef ML
#define ML 4
#endif
#ifndef SPLIT
#define SPLIT -1      /* -1: one-shot KSI_HMAC_create; 0..ML: KSI_HmacHasher_open/add/add/close, split at SPLIT */
#endif

/* block size and digest length from the algorithm definitions (FIPS 180-4, RIPEMD-160), not from hash.c */
#if ALG == 0 /* SHA-1 */
#define B 64
#define HL 20
#elif ALG == 1 /* SHA2-256 */
#define B 64
#define HL 32
#elif ALG == 2 /* RIPEMD-160 */
#define B 64
#define HL 20
#elif ALG == 4 /* SHA2-384 */
#define B 128
#define HL 48
#elif ALG == 5 /* SHA2-512 */
#define B 128
#define HL 64
#else
#error "algorithm not supported by the hash model"
#endif

#define KBUF (KL + 1)
static char key[KBUF];

#ifndef REPLAY
size_t strlen(const char *s) {
	/* obligation: KL is the C string length of s */
	int ok = 1;
	for (unsigned i = 0; i < KL; i++) if (s[i] == 0) ok = 0;
	if (s[KL] != 0) ok = 0;
	__CPROVER_assert(ok, "CHECK C06.H1 strlen model returns the real string length");
	return KL;
}
#endif

void harness(void) {
	VERIF_ctx_init();
	VERIF_hm_init(0);
	KSI_CTX *ctx = VERIF_ctx;
	int res;
	u8 msg[ML + 1];

	for (unsigned i = 0; i < KL; i++) { u8 b = ND(u8, key); ASSUME(b != 0); key[i] = (char)b; }
	key[KL] = 0;
	for (unsigned i = 0; i < ML; i++) msg[i] = ND(u8, msg);
	msg[ML] = 0xee; /* must never be hashed */

	KSI_DataHash *mac = NULL;
#if SPLIT < 0
	res = KSI_HMAC_create(ctx, ALG, key, msg, ML, &mac);
#else
	KSI_HmacHasher *hh = NULL;
	res = KSI_HmacHasher_open(ctx, ALG, key, &hh);
	if (res == KSI_OK) res = KSI_HmacHasher_add(hh, msg, SPLIT);
	if (res == KSI_OK) res = KSI_HmacHasher_add(hh, msg + SPLIT, ML - SPLIT);
	if (res == KSI_OK) res = KSI_HmacHasher_close(hh, &mac);
#endif

#if KL == 0
	CHECK(res == KSI_INVALID_ARGUMENT && mac == NULL, "C06.H1 empty key is refused and no MAC is produced");
	CHECK(VERIF_hm_nrec == 0, "C06.H1 nothing is hashed for a refused key");
	WITNESS_POINT("empty key refused");
#else
	CHECK(VERIF_hm_overflow == 0, "C06.H1 hash-model log large enough");
	CHECK(res == KSI_OK && mac != NULL, "C06.H1 HMAC is produced for every key of 1..65535 bytes and every message");
	if (res != KSI_OK || mac == NULL) return;

	/* K' */
	u8 kp[B];
	unsigned first;   /* index of the inner computation */
#if KL > B
	CHECK(VERIF_hm_nrec == 3, "C06.H1 long key: exactly three hash computations");
	first = 1;
	CHECK(VERIF_hm_rec[0].alg == ALG && VERIF_hm_rec[0].len == KL, "C06.H1 long key is hashed first, with the HMAC algorithm, over exactly its bytes");
	{
		int same = 1;
		for (unsigned i = 0; i < KL; i++) if (VERIF_hm_rec[0].msg[i] != (u8)key[i]) same = 0;
		CHECK(same, "C06.H1 long key: the hashed bytes are the key bytes");
	}
	for (unsigned i = 0; i < B; i++) kp[i] = i < HL ? VERIF_hm_rec[0].digest[i] : 0;
#else
	CHECK(VERIF_hm_nrec == 2, "C06.H1 short key: exactly two hash computations");
	first = 0;
	for (unsigned i = 0; i < B; i++) kp[i] = i < KL ? (u8)key[i] : 0;
#endif
	const struct hm_rec *in = &VERIF_hm_rec[first], *out = &VERIF_hm_rec[first + 1];

	/* inner = H((K' ^ ipad) || m) */
	CHECK(in->alg == ALG && in->len == B + ML, "C06.H1 inner computation: algorithm and length B + |m|");
	{
		int pad = 1, body = 1;
		for (unsigned i = 0; i < B; i++) if (in->msg[i] != (u8)(kp[i] ^ 0x36)) pad = 0;
		for (unsigned i = 0; i < ML; i++) if (in->msg[B + i] != msg[i]) body = 0;
		CHECK(pad, "C06.H1 inner computation starts with K' xor ipad (0x36)");
		CHECK(body, "C06.H1 inner computation continues with exactly the message bytes");
	}
	/* outer = H((K' ^ opad) || inner digest) */
	CHECK(out->alg == ALG && out->len == B + HL, "C06.H1 outer computation: algorithm and length B + digest length");
	{
		int pad = 1, body = 1;
		for (unsigned i = 0; i < B; i++) if (out->msg[i] != (u8)(kp[i] ^ 0x5c)) pad = 0;
		for (unsigned i = 0; i < HL; i++) if (out->msg[B + i] != in->digest[i]) body = 0;
		CHECK(pad, "C06.H1 outer computation starts with K' xor opad (0x5c)");
		CHECK(body, "C06.H1 outer computation continues with the inner digest (without algorithm id)");
	}
	/* result */
	{
		const unsigned char *imp = NULL; size_t il = 0;
		res = KSI_DataHash_getImprint(mac, &imp, &il);
		CHECK(res == KSI_OK && il == 1 + HL && imp[0] == ALG, "C06.H1 result imprint carries the HMAC algorithm id and digest length");
		int same = 1;
		for (unsigned i = 0; i < HL; i++) if (imp[1 + i] != out->digest[i]) same = 0;
		CHECK(same, "C06.H1 result is the digest of the outer computation");
	}
#if KL > B
	WITNESS_POINT("key longer than the block: H(K) used");
#elif KL == B
	WITNESS_POINT("key of exactly one block used unhashed");
#else
	if ((u8)key[KL - 1] == 0x36) WITNESS_POINT("short key whose last byte cancels ipad");
#endif
#if ML > 0
	if (msg[0] == 0 && in->digest[0] == 0x5c) WITNESS_POINT("MAC over a message starting with a zero byte");
#else
	WITNESS_POINT("MAC over the empty message");
#endif
#endif
}
