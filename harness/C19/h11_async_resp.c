/* C19 H-11: the RESPONSE side of the async service (net_async.c) under a single allocation failure at the concrete
 * index FAULT_AT, followed by CONTINUED USE with faults disarmed.
 *
 * Subject (real code, #included): KSI_AsyncService_run -> asyncClient_run -> asyncClient_process{Aggregation,Extender}
 * ResponseQueue -> processResponseQueue -> asyncClient_handleServerConfig / asyncClient_handle{Aggregation,Extend}Resp ->
 * handleResponse, asyncClient_setResponseError, asyncClient_findNextResponse / asyncClient_finalizeRequest (incl. the
 * receive timeout), KSI_AsyncHandle_get{Aggregation,Extend}Resp, KSI_AsyncHandle_getConfig, KSI_AsyncHandle_getSignature
 * -> createSignature / createExtendedSignature (signature builder stubbed, see below), KSI_AsyncHandle_free with the
 * REAL recycle list of the context (ctx->asyncHandleRecycle, list.c), KSI_AbstractAsyncHandle_new from the recycle
 * list, KSI_AsyncService_free / KSI_AsyncClient_free.
 *
 * Scenario (concrete shape per instance, symbolic values): service from the real constructors, cache size 2, stub
 * transport (sends everything it holds on dispatch and releases its reference; hands out queued raw replies).
 * NREQ (1|2) requests are accepted fault-free.  Then, ARMED (PH=1): one service round in which the transport delivers
 *   REPLY 1  a valid response for request 1                    REPLY 2  a response for request 1 with a service error
 *   REPLY 3  an error PDU                                      REPLY 4  a response with an id nobody is waiting for
 *   REPLY 5  a PDU with a pushed configuration AND the valid response for request 1
 *   REPLY 6  two PDUs: valid responses for request 1 and for request 2
 *   REPLY 7  a response whose id lies beyond the cache          (REPLY 4: the slot of request 1, another generation)
 * and, still armed, if the round returns a handle with a response: KSI_AsyncHandle_get<..>Resp + KSI_AsyncHandle_getSignature.
 * Afterwards, disarmed: getSignature repeated; a round that re-delivers reply 1 and delivers the reply for request 2;
 * the clock passes the receive timeout; rounds until everything is drained; a THIRD request (its handle comes from the
 * recycle list) is submitted, answered and completed = the same operation repeated without fault; everything is released.
 * PH=2 instead arms the caller's release of the completed handle (last reference: KSI_AsyncHandle_cleanup + append to
 * the recycle list, which allocates the list array) and the construction of the next handle.
 *
 * The PDU parser is a model that ALLOCATES like the real one does (PDU, header, configuration, response, request id,
 * status, error message, error PDU: each through KSI_new / the model constructors, released on failure), so that a
 * failed allocation can strike at every stage of the reply processing; likewise the stubbed signature builder
 * (open: builder + signature, applyCalendarHashChain, close: clone, KSI_PublicationRecord_clone,
 * KSI_Signature_replacePublicationRecord and KSI_Signature_verifyWithPolicy: one allocation each; ownership as
 * documented in signature_builder.h / signature.h).  Payload objects: C13 models allocating through KSI_new.
 *
 * Checks: without fault the documented result; with a fault the fault-free result or an error (status, or an owed
 * handle failed with an error code); after every round: Inv(c) of C13, reported waiting count = pending + received =
 * handles owed and not yet returned; a returned handle is owed, final, exclusively the caller's and was not returned
 * before; at the end every accepted request was returned exactly once, nothing else but the pushed configuration;
 * getSignature: error leaves the handle untouched and the repeated call succeeds; CBMC: no use-after-free, no double
 * free, no leak.
 *
 * Shape vs. values: the fault index, the reply kind, the number of requests, the service flavour, the clock (1000, then
 * +11 = past the receive timeout of 10), in REPLY 2 the service status 0x101 and the code it converts to, in REPLY 4 the
 * stale generation are instance constants (each of them decides which branch the library takes, i.e. the shape of all
 * later rounds); symbolic: the status of the error PDU and the code it converts to (REPLY 3).  NALLOC (instance constant)
 * is the number of allocations of the faulted calls; the harness checks that it is exact, that every index 1..NALLOC
 * strikes and that index NALLOC+1 does not (= there is no further allocation).
 *
 * MUTATIONS caught (scratch worktree of /repo HEAD, one at a time; each confirmed by the native ASan replay):
 *  M1 processResponseQueue cleanup: drop `KSI_ErrorPdu_free(errPdu)`            -> r3_k0: memory leak
 *  M2 handleResponse: drop `c->pending--` when a response is attached             -> r1_k0: documented result / everything owed handed back
 *  M3 asyncClient_handleServerConfig: take the KSI_Config reference BEFORE KSI_AbstractAsyncHandle_new (not released
 *     when the handle allocation fails)                                           -> r5_k7: memory leak
 *  M4 createSignature cleanup: drop `KSI_SignatureBuilder_free(builder)`          -> r1_k0: intermediate objects / leak
 *  M5 KSI_AsyncHandle_free: `KSI_free(o)` also when the recycle append succeeded  -> r4_k0: use of freed memory, double free
 *  M6 createExtendedSignature cleanup: drop `KSI_PublicationRecord_free(pubRecClone)` -> x1_k11: intermediate objects / leak
 */
#define HN "C19.H11"
#define C13_STUBS_NEVER_FAIL 1
#define C13_CREDENTIALS_OK 1
#define C13_ADD_MAX 4
#define CACHE_S 3
#ifndef EXT_FLAVOUR
#define EXT_FLAVOUR 0
#endif
#ifndef REPLY
#define REPLY 1
#endif
#ifndef NREQ
#define NREQ 2
#endif
#ifndef PH
#define PH 1
#endif
#ifndef NALLOC
#error "NALLOC: number of allocations of the faulted calls (instance constant, checked)"
#endif
#include "c19.h"
#include "net_async.h"
#include "signature_builder.h"
#include "signature_helper.h"
#include "publicationsfile.h"
#include "hashchain.h"
#include "impl/signature_builder_impl.h"
#include "impl/signature_impl.h"
#include "impl/net_async_impl.h"
#include "impl/ctx_impl.h"
#include "verif_post.h"
/* the table-driven parser of the C13 model is replaced by an allocating one (below) */
#define KSI_AggregationPdu_parse c13_table_AggregationPdu_parse
#define KSI_ExtendPdu_parse c13_table_ExtendPdu_parse
#include "c13_model.h"
#undef KSI_AggregationPdu_parse
#undef KSI_ExtendPdu_parse

/* ------------------------------------------------------------------ allocating PDU parser (model) */
struct h11_wire { int isError, hasConf, hasResp, hasMsg; KSI_uint64_t reqId, status; };
#define NWIRE 4
static struct h11_wire h11_wires[NWIRE];
static unsigned char h11_raw[NWIRE][4];
static const char h11_msg[4] = "err";

#define H11_DEFINE_PARSE(PDU, RESP)                                                                                     \
int PDU##_parse(KSI_CTX *ctx, const unsigned char *raw, size_t len, PDU **t) {                                          \
	int res;                                                                                                            \
	if (raw == NULL || len == 0 || t == NULL) return KSI_INVALID_ARGUMENT;                                              \
	unsigned idx = raw[0];                                                                                              \
	if (idx >= NWIRE) return KSI_INVALID_FORMAT;                                                                        \
	const struct h11_wire *w = &h11_wires[idx];                                                                         \
	PDU *p = KSI_new(PDU);                                                                                              \
	if (p == NULL) return KSI_OUT_OF_MEMORY;                                                                            \
	p->ctx = ctx; p->header = NULL; p->request = NULL; p->response = NULL; p->confResponse = NULL; p->error = NULL;     \
	p->macFails = 0; p->macCode = 0;                                                                                    \
	if (w->isError) {                                                                                                   \
		KSI_ErrorPdu *e = KSI_new(KSI_ErrorPdu);                                                                        \
		if (e == NULL) { res = KSI_OUT_OF_MEMORY; goto fail; }                                                          \
		e->ctx = ctx; e->status = NULL; e->errorMsg = NULL; p->error = e;                                               \
		res = KSI_Integer_new(ctx, w->status, &e->status); if (res != KSI_OK) goto fail;                                \
		res = KSI_Utf8String_new(ctx, h11_msg, 4, &e->errorMsg); if (res != KSI_OK) goto fail;                          \
	} else {                                                                                                            \
		res = KSI_Header_new(ctx, &p->header); if (res != KSI_OK) goto fail;                                            \
		if (w->hasConf) { res = KSI_Config_new(ctx, &p->confResponse); if (res != KSI_OK) goto fail; }                 \
		if (w->hasResp) {                                                                                               \
			res = RESP##_new(ctx, &p->response); if (res != KSI_OK) goto fail;                                          \
			res = KSI_Integer_new(ctx, w->reqId, &p->response->requestId); if (res != KSI_OK) goto fail;                \
			res = KSI_Integer_new(ctx, w->status, &p->response->status); if (res != KSI_OK) goto fail;                  \
			if (w->hasMsg) { res = KSI_Utf8String_new(ctx, h11_msg, 4, &p->response->errorMsg); if (res != KSI_OK) goto fail; } \
		}                                                                                                               \
	}                                                                                                                   \
	*t = p;                                                                                                             \
	return KSI_OK;                                                                                                      \
fail:                                                                                                                   \
	PDU##_free(p);                                                                                                      \
	return res;                                                                                                         \
}
H11_DEFINE_PARSE(KSI_AggregationPdu, KSI_AggregationResp)
H11_DEFINE_PARSE(KSI_ExtendPdu, KSI_ExtendResp)

/* ------------------------------------------------------------------ signature builder and friends (models) */
static unsigned h11_live_sigs, h11_live_builders, h11_live_pubrecs;
static char h11_dummy_cal, h11_dummy_pubrec;
/* a callee that allocates internally: fails with KSI_OUT_OF_MEMORY exactly when its allocation does */
static int h11_alloc_probe(void) {
	void *p = KSI_malloc(1);
	if (p == NULL) return KSI_OUT_OF_MEMORY;
	KSI_free(p);
	return KSI_OK;
}
static KSI_Signature *h11_sig_new(KSI_CTX *ctx) {
	KSI_Signature *s = KSI_new(KSI_Signature);
	if (s == NULL) return NULL;
	memset(s, 0, sizeof(*s)); s->ctx = ctx; s->ref = 1; h11_live_sigs++;
	return s;
}
void KSI_PublicationRecord_free(KSI_PublicationRecord *t) { if (t != NULL) { h11_live_pubrecs--; free(t); } }
int KSI_PublicationRecord_clone(const KSI_PublicationRecord *rec, KSI_PublicationRecord **clone) {
	if (rec == NULL || clone == NULL) return KSI_INVALID_ARGUMENT;
	void *p = KSI_malloc(8);
	if (p == NULL) return KSI_OUT_OF_MEMORY;
	h11_live_pubrecs++;
	*clone = (KSI_PublicationRecord *)p;
	return KSI_OK;
}
void KSI_Signature_free(KSI_Signature *s) {
	if (s != NULL && --s->ref == 0) { KSI_PublicationRecord_free(s->publication); h11_live_sigs--; free(s); }
}
static int h11_builder_open(KSI_CTX *ctx, KSI_SignatureBuilder **builder) {
	if (builder == NULL) return KSI_INVALID_ARGUMENT;
	KSI_SignatureBuilder *b = KSI_new(KSI_SignatureBuilder);
	if (b == NULL) return KSI_OUT_OF_MEMORY;
	b->ctx = ctx; b->noVerify = 0; b->aggrStartLevel = 0; b->sig = h11_sig_new(ctx);
	if (b->sig == NULL) { free(b); return KSI_OUT_OF_MEMORY; }
	h11_live_builders++;
	*builder = b;
	return KSI_OK;
}
int KSI_SignatureBuilder_openFromAggregationResp(const KSI_AggregationResp *resp, KSI_SignatureBuilder **builder) {
	if (resp == NULL) return KSI_INVALID_ARGUMENT;
	return h11_builder_open(resp->ctx, builder);
}
int KSI_SignatureBuilder_openFromSignature(const KSI_Signature *sig, KSI_SignatureBuilder **builder) {
	if (sig == NULL) return KSI_INVALID_ARGUMENT;
	return h11_builder_open(sig->ctx, builder);
}
int KSI_SignatureBuilder_applyCalendarHashChain(KSI_SignatureBuilder *builder, KSI_CalendarHashChain *cal) {
	if (builder == NULL || cal == NULL) return KSI_INVALID_ARGUMENT;
	return h11_alloc_probe();
}
/* signature_builder.h: "the caller must also call KSI_SignatureBuilder_free on the builder object" - close hands out a
 * separate object */
int KSI_SignatureBuilder_close(KSI_SignatureBuilder *builder, KSI_uint64_t rootLevel, KSI_Signature **sig) {
	(void)rootLevel;
	if (builder == NULL || sig == NULL) return KSI_INVALID_ARGUMENT;
	CHECK(builder->noVerify == 1, HN " the handle's signature is assembled with the builder's own verification turned off");
	KSI_Signature *s = h11_sig_new(builder->ctx);
	if (s == NULL) return KSI_OUT_OF_MEMORY;
	*sig = s;
	return KSI_OK;
}
void KSI_SignatureBuilder_free(KSI_SignatureBuilder *builder) {
	if (builder != NULL) { KSI_Signature_free(builder->sig); h11_live_builders--; free(builder); }
}
/* signature.h: takes ownership of the record on success only */
int KSI_Signature_replacePublicationRecord(KSI_Signature *sig, KSI_PublicationRecord *pubRec) {
	if (sig == NULL || pubRec == NULL) return KSI_INVALID_ARGUMENT;
	int res = h11_alloc_probe();
	if (res != KSI_OK) return res;
	KSI_PublicationRecord_free(sig->publication);
	sig->publication = pubRec;
	return KSI_OK;
}
int KSI_Signature_verifyWithPolicy(KSI_Signature *sig, const KSI_DataHash *docHsh, KSI_uint64_t rootLevel, const KSI_Policy *policy, KSI_VerificationContext *verificationContext) {
	(void)docHsh; (void)rootLevel; (void)policy; (void)verificationContext;
	if (sig == NULL) return KSI_INVALID_ARGUMENT;
	return h11_alloc_probe();
}
const KSI_Policy *KSI_VERIFICATION_POLICY_INTERNAL;
int KSI_CalendarHashChain_verifyCompatibilityTo(const KSI_CalendarHashChain *a, const KSI_CalendarHashChain *b) {
	if (a == NULL || b == NULL) return KSI_INVALID_ARGUMENT;
	return KSI_OK;
}
int KSI_ExtendResp_getCalendarHashChain(const KSI_ExtendResp *t, KSI_CalendarHashChain **c) {
	if (t == NULL || c == NULL) return KSI_INVALID_ARGUMENT;
	*c = (KSI_CalendarHashChain *)&h11_dummy_cal;
	return KSI_OK;
}
int KSI_AggregationReq_getRequestLevel(const KSI_AggregationReq *t, KSI_Integer **l) {
	if (t == NULL || l == NULL) return KSI_INVALID_ARGUMENT;
	*l = NULL;
	return KSI_OK;
}
/* net.c: plain allocation, all callbacks NULL */
int KSI_AbstractAsyncService_new(KSI_CTX *ctx, KSI_AsyncService **service) {
	if (ctx == NULL || service == NULL) return KSI_INVALID_ARGUMENT;
	KSI_AsyncService *s = KSI_new(KSI_AsyncService);
	if (s == NULL) return KSI_OUT_OF_MEMORY;
	memset(s, 0, sizeof(*s)); s->ctx = ctx; *service = s;
	return KSI_OK;
}
int KSI_TcpAsyncClient_new(KSI_CTX *ctx, KSI_AsyncClient **c) { (void)ctx; (void)c; return KSI_UNKNOWN_ERROR; }
int KSI_HttpAsyncClient_new(KSI_CTX *ctx, KSI_AsyncClient **c) { (void)ctx; (void)c; return KSI_UNKNOWN_ERROR; }

#include "net_async.c"
#include "c13_state.h"

KSI_IMPLEMENT_LIST(KSI_AsyncHandle, KSI_AsyncHandle_free)      /* types.c:201 */

#if EXT_FLAVOUR
#define RESP_T KSI_ExtendResp
#define SERVICE_NEW KSI_ExtendingAsyncService_new
#define GET_RESP KSI_AsyncHandle_getExtendResp
#define HANDLE_NEW(ctx, req, h) KSI_AsyncExtendHandle_new((ctx), (KSI_ExtendReq *)(req), (h))
#define REQ_FREE(r) KSI_ExtendReq_free((KSI_ExtendReq *)(r))
static KSI_Signature h11_orig_sig;          /* the signature being extended (only its calendar chain pointer is read) */
#else
#define RESP_T KSI_AggregationResp
#define SERVICE_NEW KSI_SigningAsyncService_new
#define GET_RESP KSI_AsyncHandle_getAggregationResp
#define HANDLE_NEW(ctx, req, h) KSI_AsyncAggregationHandle_new((ctx), (KSI_AggregationReq *)(req), (h))
#define REQ_FREE(r) KSI_AggregationReq_free((KSI_AggregationReq *)(r))
#endif

/* transport: sends everything it holds and releases its reference (as net_tcp_async.c does); connection stays up */
static int h11_dispatch(void *impl) {
	struct c13_transport *t = (struct c13_transport *)impl;
	t->dispatch_calls++;
	for (unsigned i = 0; i < C13_ADD_MAX; i++) {
		KSI_AsyncHandle *h = t->held_add[i];
		if (h == NULL) continue;
		if (h->state == KSI_ASYNC_STATE_WAITING_FOR_DISPATCH) { h->state = KSI_ASYNC_STATE_WAITING_FOR_RESPONSE; h->sndTime = c13_now; }
		t->held_add[i] = NULL;
		KSI_AsyncHandle_free(h);
	}
	return KSI_OK;
}
/* a raw reply in the receive queue of the transport (created by the transport when the bytes arrived, i.e. before the
 * faulted call; released by processResponseQueue) */
static void queue_reply(unsigned idx, int isError, int hasConf, int hasResp, int hasMsg, KSI_uint64_t reqId, KSI_uint64_t status) {
	KSI_OctetString *o = KSI_new(KSI_OctetString); ASSUME(o != NULL);
	h11_wires[idx].isError = isError; h11_wires[idx].hasConf = hasConf; h11_wires[idx].hasResp = hasResp;
	h11_wires[idx].hasMsg = hasMsg; h11_wires[idx].reqId = reqId; h11_wires[idx].status = status;
	h11_raw[idx][0] = (unsigned char)idx;
	o->ctx = VERIF_ctx; o->ref = 1; o->data = h11_raw[idx]; o->data_len = 4; o->c13_tag = (int)idx;
	for (unsigned k = 0; k < 3; k++) if (k == c13_tr.nresp) c13_tr.resp[k] = o;
	c13_tr.nresp++;
}
/* after a round: replies the round did not fetch (it stopped early) stay in the transport's queue, in order */
static void queue_reset(void) {
	CHECK(c13_tr.resp_taken <= c13_tr.nresp + 1, HN " the round fetched no more than what was queued");
	KSI_OctetString *left[3] = { NULL, NULL, NULL };
	unsigned nleft = 0;
	for (unsigned k = 0; k < 3; k++) {
		if (k >= c13_tr.resp_taken && k < c13_tr.nresp) { for (unsigned j = 0; j < 3; j++) if (j == nleft) left[j] = c13_tr.resp[k]; nleft++; }
	}
	for (unsigned k = 0; k < 3; k++) c13_tr.resp[k] = left[k];
	c13_tr.nresp = nleft; c13_tr.resp_taken = 0;
}
static void *mk_req(KSI_CTX *ctx) {
	int res;
#if EXT_FLAVOUR
	KSI_ExtendReq *r = NULL;
	res = KSI_ExtendReq_new(ctx, &r); ASSUME(res == KSI_OK);
	res = KSI_Integer_new(ctx, 1500000000, &r->aggregationTime); ASSUME(res == KSI_OK);
#else
	KSI_AggregationReq *r = NULL;
	res = KSI_AggregationReq_new(ctx, &r); ASSUME(res == KSI_OK);
	r->requestHash = (KSI_DataHash *)&c13_dummy_hash;
#endif
	return r;
}
static void dress(KSI_AsyncHandle *h) {
#if EXT_FLAVOUR
	h->signature = &h11_orig_sig; h->pubRec = (const KSI_PublicationRecord *)&h11_dummy_pubrec;
#else
	(void)h;
#endif
}
static KSI_AsyncHandle *mk_handle(KSI_CTX *ctx) {
	KSI_AsyncHandle *h = NULL;
	int res = HANDLE_NEW(ctx, mk_req(ctx), &h); ASSUME(res == KSI_OK && h != NULL);
	dress(h);
	return h;
}
#if EXT_FLAVOUR
/* the model ExtendReq does not own its aggregation time (c13_model.h): released by the harness at the very end */
static KSI_Integer *h11_times[4]; static unsigned h11_ntimes;
static void remember_time(const KSI_AsyncHandle *h) { for (unsigned k = 0; k < 4; k++) if (k == h11_ntimes) h11_times[k] = h->extReq->aggregationTime; h11_ntimes++; }
#else
static void remember_time(const KSI_AsyncHandle *h) { (void)h; }
#endif

/* ---- exactly-once monitor ---- */
static KSI_AsyncHandle *mon_h[3];         /* accepted requests (the harness keeps an observer reference on each) */
static unsigned mon_got[3], mon_conf, mon_other;
static size_t mon_owed;                   /* accepted or created by the library, not yet returned */
static void account(KSI_AsyncHandle *out) {
	if (out == NULL) return;
	int known = 0;
	for (unsigned k = 0; k < 3; k++) if (mon_h[k] != NULL && out == mon_h[k]) { mon_got[k]++; known = 1; }
	if (!known) {
		if (out->state == KSI_ASYNC_STATE_PUSH_CONFIG_RECEIVED && out->aggrReq == NULL && out->extReq == NULL) mon_conf++; else mon_other++;
	}
	CHECK(out->state == KSI_ASYNC_STATE_ERROR || out->state == KSI_ASYNC_STATE_RESPONSE_RECEIVED || out->state == KSI_ASYNC_STATE_PUSH_CONFIG_RECEIVED, HN " a returned handle is in a final state");
	CHECK((out->state != KSI_ASYNC_STATE_ERROR) == (out->respCtx != NULL), HN " a returned handle carries a response exactly when it did not fail");
	CHECK(out->state != KSI_ASYNC_STATE_ERROR || out->err != KSI_OK, HN " a failed handle carries an error code");
	CHECK(out->ref == (known ? 2u : 1u), HN " a returned handle is referenced by the caller only (plus the observer)");
	CHECK(mon_owed > 0, HN " nothing is returned that is not owed");
	mon_owed--;
}
static void after_round(const KSI_AsyncClient *c, int res, size_t waiting) {
	c13_check_inv(c);
	if (res == KSI_OK) CHECK(waiting == c->pending + c->received, HN " reported waiting count = pending + received");
	CHECK(c->pending + c->received == mon_owed, HN " pending + received = handles owed and not yet returned");
}
static int failed_with_error(const KSI_AsyncHandle *h) { return h != NULL && h->state == KSI_ASYNC_STATE_ERROR && h->err != KSI_OK; }

void harness(void) {
	VERIF_ctx_init();
	KSI_CTX *ctx = VERIF_ctx;
	int res;
	KSI_AsyncService *as = NULL;
	KSI_AsyncClient *c = NULL;
	res = KSI_AsyncHandleList_new(&ctx->asyncHandleRecycle); ASSUME(res == KSI_OK);     /* as KSI_CTX_new does (base.c:329) */
	memset(&c13_tr, 0, sizeof(c13_tr));
	c13_now = 1000;        /* concrete clock (as in H-8): whether a request has timed out decides the shape of every later round */
#if EXT_FLAVOUR
	memset(&h11_orig_sig, 0, sizeof(h11_orig_sig)); h11_orig_sig.ctx = ctx; h11_orig_sig.ref = 1;
	h11_orig_sig.calendarChain = (KSI_CalendarHashChain *)&h11_dummy_cal;
#endif
	res = SERVICE_NEW(ctx, &as); ASSUME(res == KSI_OK && as != NULL);
	res = KSI_AbstractAsyncClient_new(ctx, &c); ASSUME(res == KSI_OK && c != NULL);
	c->clientImpl = &c13_tr; c->addRequest = c13_tr_addRequest; c->getCredentials = c13_tr_getCredentials;
	c->getResponse = (int (*)(void *, KSI_OctetString **, size_t *))c13_tr_getResponse; c->dispatch = h11_dispatch;
	as->impl = c; as->impl_free = (void (*)(void *))KSI_AsyncClient_free;
	res = KSI_AsyncService_setOption(as, KSI_ASYNC_OPT_REQUEST_CACHE_SIZE, (void *)(size_t)(CACHE_S - 1)); ASSUME(res == KSI_OK);
	res = KSI_AsyncService_setOption(as, KSI_ASYNC_OPT_RCV_TIMEOUT, (void *)(size_t)10); ASSUME(res == KSI_OK);
	c13_difftime_threshold = 10; c13_difftime_threshold_set = 1;

	/* ---- NREQ requests accepted, fault-free ---- */
	KSI_AsyncHandle *h1 = mk_handle(ctx), *h2 = NULL;
	remember_time(h1);
	KSI_AsyncHandle_ref(h1);                                   /* observer */
	res = KSI_AsyncService_addRequest(as, h1); ASSUME(res == KSI_OK);
	mon_h[0] = h1; mon_owed++;
#if NREQ == 2
	h2 = mk_handle(ctx);
	remember_time(h2);
	KSI_AsyncHandle_ref(h2);
	res = KSI_AsyncService_addRequest(as, h2); ASSUME(res == KSI_OK);
	mon_h[1] = h2; mon_owed++;
#endif
	const KSI_uint64_t id1 = h1->id, id2 = (h2 != NULL ? h2->id : 0);
	after_round(c, KSI_OK, NREQ);

	/* ---- what the server sends ---- */
	/* service status of the failing replies.  REPLY 2: the value decides which branch of handleResponse runs (= the shape
	 * of the rest of the scenario), so it and the code it converts to are concrete there (lesson 1); symbolic in REPLY 3 */
#if REPLY == 2
	const KSI_uint64_t bad_status = 0x101;
	c13_service_error_code = KSI_SERVICE_INVALID_REQUEST; c13_service_error_code_set = 1;      /* what 0x101 converts to (net.c) */
#else
	const KSI_uint64_t bad_status = ND(u64, bad_status); ASSUME(bad_status != 0);
#endif
#if REPLY == 1
	queue_reply(0, 0, 0, 1, 0, id1, 0);
#elif REPLY == 2
	queue_reply(0, 0, 0, 1, 1, id1, bad_status);
#elif REPLY == 3
	queue_reply(0, 1, 0, 0, 0, 0, bad_status);
#elif REPLY == 4
	/* a stale reply: the slot of request 1 but the next generation (concrete: whether it matches decides the shape) */
	queue_reply(0, 0, 0, 1, 0, id1 ^ ((KSI_uint64_t)1 << 32), 0);
#elif REPLY == 5
	queue_reply(0, 0, 1, 1, 0, id1, 0);
#elif REPLY == 6
	queue_reply(0, 0, 0, 1, 0, id1, 0);
	queue_reply(1, 0, 0, 1, 0, id2, 0);
#elif REPLY == 7
	/* a reply whose id points beyond the cache */
	queue_reply(0, 0, 0, 1, 0, (KSI_uint64_t)CACHE_S, 0);
#endif

	/* ---- the faulted round (PH 1) ---- */
	KSI_AsyncHandle *out = NULL; size_t waiting = 0; unsigned armed_allocs = 0;
	KSI_Signature *sig = NULL; int sres = KSI_OK, sig_tried = 0; RESP_T *resp = NULL;
#if PH == 1
	C19_ARM();
#endif
	res = KSI_AsyncService_run(as, &out, &waiting);
	if (res == KSI_OK && out != NULL && out->state == KSI_ASYNC_STATE_RESPONSE_RECEIVED) {
		int gres = GET_RESP(out, &resp);
		CHECK(gres == KSI_OK && resp != NULL && (void *)resp == out->respCtx, HN " the response of a completed handle is available");
		sres = KSI_AsyncHandle_getSignature(out, &sig);
		sig_tried = 1;
	}
#if PH == 1
	C19_DISARM();
	armed_allocs = VERIF_alloc_count;
#endif
	queue_reset();
	if (res != KSI_OK) CHECK(out == NULL, HN " a failed round hands out nothing");
#if REPLY == 5
	/* a handle the library created for the pushed configuration is owed to the caller from the moment it exists */
	if (c->serverConf != NULL) mon_owed++;
	if (out != NULL && out != h1 && out != h2) mon_owed++;
#endif
	account(out);
	if (out != NULL && out->state == KSI_ASYNC_STATE_PUSH_CONFIG_RECEIVED) {
		KSI_Config *cfg = NULL;
		CHECK(KSI_AsyncHandle_getConfig(out, &cfg) == KSI_OK && cfg != NULL, HN " the pushed configuration is available from its handle");
	}
	/* the documented, fault-free outcome of the round */
	int ff_ok = (res == KSI_OK);
#if REPLY == 1
	ff_ok = ff_ok && out == h1 && h1->state == KSI_ASYNC_STATE_RESPONSE_RECEIVED && waiting == NREQ - 1
		&& (h2 == NULL || h2->state == KSI_ASYNC_STATE_WAITING_FOR_RESPONSE);
#elif REPLY == 2
	ff_ok = ff_ok && out == h1 && h1->state == KSI_ASYNC_STATE_ERROR && h1->err == c13_service_error_code && h1->errExt == (long)bad_status
		&& h1->errMsg != NULL && waiting == NREQ - 1 && (h2 == NULL || h2->state == KSI_ASYNC_STATE_WAITING_FOR_RESPONSE);
#elif REPLY == 3
	ff_ok = ff_ok && out == h1 && h1->state == KSI_ASYNC_STATE_ERROR && h1->err == c13_service_error_code && h1->errExt == (long)bad_status
		&& waiting == NREQ - 1 && (h2 == NULL || (h2->state == KSI_ASYNC_STATE_ERROR && h2->err == c13_service_error_code));
#elif REPLY == 4 || REPLY == 7
	ff_ok = ff_ok && out == NULL && waiting == NREQ && h1->state == KSI_ASYNC_STATE_WAITING_FOR_RESPONSE
		&& (h2 == NULL || h2->state == KSI_ASYNC_STATE_WAITING_FOR_RESPONSE);
#elif REPLY == 5
	ff_ok = ff_ok && out != NULL && out != h1 && out != h2 && out->state == KSI_ASYNC_STATE_PUSH_CONFIG_RECEIVED && waiting == NREQ
		&& h1->state == KSI_ASYNC_STATE_RESPONSE_RECEIVED && (h2 == NULL || h2->state == KSI_ASYNC_STATE_WAITING_FOR_RESPONSE);
#elif REPLY == 6
	ff_ok = ff_ok && out == h1 && h1->state == KSI_ASYNC_STATE_RESPONSE_RECEIVED && h2->state == KSI_ASYNC_STATE_RESPONSE_RECEIVED && waiting == 1;
#endif
	if (sig_tried) ff_ok = ff_ok && sres == KSI_OK && sig != NULL;
	if (VERIF_fault_hit) {
		CHECK(ff_ok || res != KSI_OK || failed_with_error(h1) || failed_with_error(h2) || (sig_tried && sres != KSI_OK),
			HN " with a failed allocation the round delivers the fault-free result or reports an error (status, or a request failed with an error code)");
	} else {
		CHECK(ff_ok, HN " without a fault the round delivers the documented result");
	}
	after_round(c, res, waiting);
	if (sig_tried) {
		CHECK((sres == KSI_OK) == (sig != NULL), HN " getSignature delivers a signature exactly when it succeeds");
		if (sres != KSI_OK) {
			sres = KSI_AsyncHandle_getSignature(out, &sig);
			CHECK(sres == KSI_OK && sig != NULL, HN " getSignature repeated without fault succeeds");
		}
		CHECK(out->state == KSI_ASYNC_STATE_RESPONSE_RECEIVED && out->respCtx == (void *)resp && out->err == KSI_OK, HN " getSignature leaves the handle as it was");
		KSI_Signature_free(sig); sig = NULL;
		CHECK(h11_live_sigs == 0 && h11_live_builders == 0 && h11_live_pubrecs == 0, HN " getSignature released every intermediate object");
	}

	/* ---- the caller releases what it got (PH 2: this release and the next construction are the faulted calls) ---- */
	KSI_AsyncHandle *h3 = NULL;
	void *req3 = mk_req(ctx);
	{
		KSI_AsyncHandle *first = out;
		KSI_AsyncHandle *observed = NULL;
		for (unsigned k = 0; k < 3; k++) if (first != NULL && first == mon_h[k]) observed = first;
		if (observed != NULL) KSI_AsyncHandle_free(observed);      /* the observer lets go first: the next release is the last reference */
#if PH == 2
		C19_ARM();
#endif
		KSI_AsyncHandle_free(first);
		res = HANDLE_NEW(ctx, req3, &h3);
#if PH == 2
		C19_DISARM();
		armed_allocs = VERIF_alloc_count;
		C19_OUTCOME(res, h3 != NULL && h3->ref == 1 && h3->state == KSI_ASYNC_STATE_UNDEFINED);
		if (res != KSI_OK) { CHECK(h3 == NULL, HN " a failed handle construction hands out nothing"); res = HANDLE_NEW(ctx, req3, &h3); }
#endif
		CHECK(res == KSI_OK && h3 != NULL && h3->ref == 1 && h3->state == KSI_ASYNC_STATE_UNDEFINED && h3->respCtx == NULL && h3->errMsg == NULL && h3->raw == NULL,
			HN " handle construction (from the recycle list or fresh) without fault succeeds");
		if (observed != NULL) { for (unsigned k = 0; k < 3; k++) if (mon_h[k] == observed) mon_h[k] = NULL; if (h1 == observed) h1 = NULL; if (h2 == observed) h2 = NULL; }
		dress(h3);
		remember_time(h3);
	}

	/* ---- continued use: reply 1 again (re-delivery) and the reply for request 2 ---- */
	queue_reply(2, 0, 0, 1, 0, id1, 0);
#if NREQ == 2
	queue_reply(3, 0, 0, 1, 0, id2, 0);
#endif
	out = NULL;
	res = KSI_AsyncService_run(as, &out, &waiting);
	CHECK(res == KSI_OK, HN " a service round after the fault succeeds");
	queue_reset();
	account(out);
	after_round(c, res, waiting);
	if (out != NULL) { int obs = 0; for (unsigned k = 0; k < 3; k++) if (out == mon_h[k]) obs = 1; if (!obs) KSI_AsyncHandle_free(out); }
	/* the clock passes the receive timeout: whatever is still unanswered is failed and handed back */
	c13_now += 11;
	for (unsigned r = 0; r < CACHE_S; r++) {
		out = NULL;
		res = KSI_AsyncService_run(as, &out, &waiting);
		CHECK(res == KSI_OK, HN " a draining round succeeds");
		queue_reset();
		account(out);
		after_round(c, res, waiting);
		if (out != NULL) { int obs = 0; for (unsigned k = 0; k < 3; k++) if (out == mon_h[k]) obs = 1; if (!obs) KSI_AsyncHandle_free(out); }
	}
	CHECK(mon_owed == 0 && c->pending == 0 && c->received == 0, HN " everything owed was handed back");
	CHECK(mon_got[0] == 1 && mon_got[1] == (NREQ == 2 ? 1u : 0u) && mon_other == 0, HN " every accepted request was returned exactly once and nothing foreign");
	CHECK(mon_conf <= (REPLY == 5 ? 1u : 0u), HN " a pushed configuration is handed out at most once, and only if one was pushed");
	if (!VERIF_fault_hit) CHECK(mon_conf == (REPLY == 5 ? 1u : 0u), HN " without fault the pushed configuration is handed out exactly once");

	/* ---- the same operation repeated without fault: a third request is answered and completed ---- */
	KSI_AsyncHandle_ref(h3);
	res = KSI_AsyncService_addRequest(as, h3);
	CHECK(res == KSI_OK, HN " a further submission succeeds");
	mon_h[2] = h3; mon_owed++;
	queue_reply(0, 0, 0, 1, 0, h3->id, 0);
	out = NULL;
	res = KSI_AsyncService_run(as, &out, &waiting);
	queue_reset();
	account(out);
	after_round(c, res, waiting);
	CHECK(res == KSI_OK && out == h3 && h3->state == KSI_ASYNC_STATE_RESPONSE_RECEIVED && waiting == 0, HN " the repeated operation (reply processed without fault) completes the request");
	sres = KSI_AsyncHandle_getSignature(h3, &sig);
	CHECK(sres == KSI_OK && sig != NULL, HN " the signature of the repeated request is available");
	KSI_Signature_free(sig);
	CHECK(mon_got[2] == 1, HN " the repeated request was returned exactly once");

	/* ---- release everything ---- */
	KSI_AsyncHandle_free(h3); KSI_AsyncHandle_free(h3);
	if (h1 != NULL) { KSI_AsyncHandle_free(h1); KSI_AsyncHandle_free(h1); }
	if (h2 != NULL) { KSI_AsyncHandle_free(h2); KSI_AsyncHandle_free(h2); }
	KSI_AsyncService_free(as);
	CHECK(KSI_AsyncHandleList_length(ctx->asyncHandleRecycle) == 0, HN " KSI_AsyncService_free empties the recycle list");
	KSI_AsyncHandleList_free(ctx->asyncHandleRecycle); ctx->asyncHandleRecycle = NULL;      /* KSI_CTX_free */
#if EXT_FLAVOUR
	for (unsigned k = 0; k < 4; k++) if (k < h11_ntimes) KSI_Integer_free(h11_times[k]);
#endif
	CHECK(h11_live_sigs == 0 && h11_live_builders == 0 && h11_live_pubrecs == 0, HN " no signature object outlives the scenario");
	/* completeness of the enumeration: NALLOC (instance constant) = allocations of the faulted calls when none fails;
	 * the instances are FAULT_AT = 0..NALLOC+1, every index up to NALLOC does strike, NALLOC+1 does not */
	if (!VERIF_fault_hit) CHECK(armed_allocs == NALLOC, HN " the faulted calls perform exactly NALLOC allocations when none fails");
	CHECK((VERIF_fault_hit != 0) == (FAULT_AT >= 1 && FAULT_AT <= NALLOC), HN " every enumerated index up to NALLOC strikes, none beyond");
	WITNESS_POINT("scenario finished");
#if FAULT_AT >= 1 && FAULT_AT <= NALLOC
	if (VERIF_fault_hit) WITNESS_POINT("fault was injected");
#endif
}
