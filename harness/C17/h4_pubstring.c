/* C17 H-4: binary layout and acceptance logic of KSI_PublicationData_fromBase32 / _toBase32 (real
 * publicationsfile.c) - what these two functions do THEMSELVES, between the codec and the checksum:
 *   publication string = base32( T || I || C ),  T = publication time, 8 bytes big-endian,
 *   I = imprint (algorithm byte + digest), C = CRC-32 of T || I, 4 bytes big-endian.
 * The three callees are replaced by recording models (the real ones are the subject of H-1/H-2/H-3):
 *   KSI_base32Decode : returns a fresh exact-size heap copy of the harness' byte string BIN (NBIN bytes)
 *   KSI_base32Encode : records the bytes and the group length it is given, returns a fixed string
 *   KSI_crc32        : records (bytes, length, initial value), returns a symbolic 32-bit value; asked again
 *                      about exactly the same bytes it returns the same value (it is a function)
 * NBIN and the algorithm byte BIN[8] are concrete per instance (lengths must be concrete for CBMC); time,
 * digest, stored CRC and the CRC function's value are symbolic.
 *
 * MODE 1 fromBase32: reference
 *   NBIN < 13 (not even time + algorithm byte + CRC)                 -> KSI_INVALID_FORMAT
 *   else stored CRC (last 4 bytes, big-endian) != crc(first NBIN-4)  -> KSI_INVALID_FORMAT
 *   else unknown algorithm byte                                      -> KSI_UNAVAILABLE_HASH_ALGORITHM
 *   else NBIN != 8 + 1 + digest length + 4                           -> KSI_INVALID_FORMAT
 *   else KSI_OK with time = big-endian BIN[0..7], imprint = BIN[8..NBIN-5]
 *   never reads outside the NBIN bytes, releases the decoded buffer exactly once, returns no object on error.
 * MODE 2 toBase32 (+ round trip): for publication data (time T, imprint of ALG), the CRC model is asked once
 *   about exactly T(8 bytes, big-endian) || imprint with initial value 0, the encoder gets exactly those bytes
 *   followed by the CRC value big-endian, with group length 6, and its string is returned.  Feeding the recorded
 *   bytes back through fromBase32 returns the same time and imprint. */
#include "verif.h"
#include "internal.h"
#include "publicationsfile.h"
#include "base32.h"
#include "crc32.h"
#include "impl/publicationsfile_impl.h"
#include "ctx.h"
#include "verif_post.h"

#ifndef MODE
#define MODE 1
#endif
#ifndef NBIN
#define NBIN 33
#endif
#ifndef ALGBYTE
#define ALGBYTE 0x00
#endif
#define BMAX 96

/* digest length by algorithm id, from the KSI hash algorithm registry (0 = not a registered algorithm) */
static unsigned ref_digest_len(unsigned id) {
	switch (id) {
	case 0x00: return 20; /* SHA-1 */      case 0x01: return 32; /* SHA2-256 */  case 0x02: return 20; /* RIPEMD-160 */
	case 0x04: return 48; /* SHA2-384 */   case 0x05: return 64; /* SHA2-512 */  case 0x07: return 28; /* SHA3-224 */
	case 0x08: return 32; /* SHA3-256 */   case 0x09: return 48; /* SHA3-384 */  case 0x0a: return 64; /* SHA3-512 */
	case 0x0b: return 32; /* SM3 */
	default: return 0;    /* 0x03, 0x06: withdrawn ids; everything above 0x0b: unassigned */
	}
}

/* ---------------- recording models of the callees ---------------- */
static u8 BIN[BMAX];                 /* what the decoder model returns */
static unsigned dec_calls, dec_live; /* buffers handed out / not yet released is checked by CBMC's free() checks */
static const char *dec_arg;
int KSI_base32Decode(const char *base32, unsigned char **data, size_t *data_len) {
	dec_calls++; dec_arg = base32;
	if (base32 == NULL || data == NULL || data_len == NULL) return KSI_INVALID_ARGUMENT;
	u8 *p = verif_buf_alloc(NBIN);                 /* exact size: any access past NBIN bytes is out of bounds */
	for (unsigned i = 0; i < NBIN; i++) p[i] = BIN[i];
	*data = p; *data_len = NBIN;
	return KSI_OK;
}

static u8 enc_bytes[BMAX]; static size_t enc_len, enc_group; static unsigned enc_calls;
static char enc_string[] = "ENCODER-OUTPUT";
int KSI_base32Encode(const unsigned char *data, size_t data_len, size_t group_len, char **encoded) {
	enc_calls++; enc_len = data_len; enc_group = group_len;
	for (unsigned i = 0; i < BMAX; i++) enc_bytes[i] = (i < data_len) ? data[i] : 0;
	char *s = malloc(sizeof(enc_string)); ASSUME(s != NULL);
	for (unsigned i = 0; i < sizeof(enc_string); i++) s[i] = enc_string[i];
	*encoded = s;
	return KSI_OK;
}

static u8 crc_bytes[BMAX]; static size_t crc_len; static unsigned long crc_ival, crc_value; static unsigned crc_calls;
unsigned long KSI_crc32(const void *data, size_t length, unsigned long ival) {
	const u8 *p = data;
	if (crc_calls > 0) {
		/* a second question: must be about the very same bytes (round trip) - then the same answer */
		int same = (length == crc_len && ival == crc_ival);
		for (unsigned i = 0; i < BMAX; i++) if (i < length && i < crc_len && p[i] != crc_bytes[i]) same = 0;
		CHECK(same, "C17.H4 the CRC is recomputed over the same bytes on the way back");
		crc_calls++;
		return crc_value;
	}
	crc_calls++; crc_len = length; crc_ival = ival;
	for (unsigned i = 0; i < BMAX; i++) crc_bytes[i] = (i < length) ? p[i] : 0;
	crc_value = ND(unsigned, crcval);
	return crc_value;
}

/* KSI_PublicationData_free releases the (never set) base TLV through tlv.c, which is not linked */
void KSI_TLV_free(KSI_TLV *t) { CHECK(t == NULL, "C17.H4 publication data built from a string carries no base TLV"); }

#if MODE == 1
void harness(void) {
	VERIF_ctx_init(); KSI_CTX *ctx = VERIF_ctx;
	for (unsigned i = 0; i < BMAX; i++) { u8 b = ND(u8, bin); BIN[i] = (i < NBIN) ? b : 0; }
#if NBIN > 8
	BIN[8] = ALGBYTE;
#endif
	KSI_PublicationData *pd = NULL;
	int res = KSI_PublicationData_fromBase32(ctx, "PUBLICATION-STRING", &pd);

	CHECK(dec_calls == 1, "C17.H4 the string is decoded exactly once");
	unsigned dl = ref_digest_len(ALGBYTE);
#if NBIN < 13
	CHECK(res == KSI_INVALID_FORMAT && pd == NULL, "C17.H4 fewer than 13 bytes are rejected as invalid format");
	CHECK(crc_calls == 0, "C17.H4 nothing is checksummed when the input is too short");
	WITNESS_POINT("too short rejected");
	(void)dl;
#else
	unsigned long stored = ((unsigned long)BIN[NBIN - 4] << 24) | ((unsigned long)BIN[NBIN - 3] << 16) | ((unsigned long)BIN[NBIN - 2] << 8) | BIN[NBIN - 1];
	CHECK(crc_calls == 1 && crc_len == NBIN - 4 && crc_ival == 0, "C17.H4 the CRC is taken over everything but the last four bytes, from initial value 0");
	{ int same = 1; for (unsigned i = 0; i < BMAX; i++) if (i + 4 < NBIN && crc_bytes[i] != BIN[i]) same = 0;
	  CHECK(same, "C17.H4 the CRC is taken over the decoded bytes themselves"); }
	if (stored != crc_value) {
		CHECK(res == KSI_INVALID_FORMAT && pd == NULL, "C17.H4 a checksum mismatch is rejected as invalid format");
		if ((stored ^ crc_value) == 1) WITNESS_POINT("one-bit checksum mismatch rejected");
		return;
	}
	if (dl == 0) {
		CHECK(res == KSI_UNAVAILABLE_HASH_ALGORITHM && pd == NULL, "C17.H4 an unknown algorithm byte is rejected");
#ifdef WIT_UNKNOWN_ALG
		WITNESS_POINT("unknown algorithm rejected");
#endif
		return;
	}
	if (NBIN != 8 + 1 + dl + 4) {
		CHECK(res == KSI_INVALID_FORMAT && pd == NULL, "C17.H4 a total length that does not match the algorithm is rejected");
#ifdef WIT_WRONG_LEN
		WITNESS_POINT("wrong total length rejected");
#endif
		return;
	}
	CHECK(res == KSI_OK && pd != NULL, "C17.H4 a well-formed publication is accepted");
	if (res != KSI_OK || pd == NULL) return;
	KSI_uint64_t t = 0; for (unsigned i = 0; i < 8; i++) t = (t << 8) | BIN[i];
	CHECK(pd->time != NULL && KSI_Integer_getUInt64(pd->time) == t, "C17.H4 publication time = first 8 bytes, big-endian");
	const unsigned char *imp = NULL; size_t il = 0;
	CHECK(pd->imprint != NULL, "C17.H4 accepted publication has an imprint");
	if (pd->imprint == NULL) return;
	KSI_DataHash_getImprint(pd->imprint, &imp, &il);
	int eq = (il == 1 + dl);
	for (unsigned i = 0; i < 65; i++) if (eq && i < 1 + dl && imp[i] != BIN[8 + i]) eq = 0;
	CHECK(eq, "C17.H4 imprint = bytes 8 .. end-4 (algorithm byte and digest)");
#ifdef WIT_ACCEPT
	if (BIN[0] == 0x80 && BIN[7] == 0x01) WITNESS_POINT("publication accepted, 64-bit time");
#endif
#endif /* NBIN >= 13 */
}
#else
#define DLEN (NBIN - 13)
void harness(void) {
	VERIF_ctx_init(); KSI_CTX *ctx = VERIF_ctx; int res;
	KSI_PublicationData *pd = NULL;
	res = KSI_PublicationData_new(ctx, &pd); ASSUME(res == KSI_OK);
	KSI_uint64_t T = ND(u64, time);
	u8 dig[64]; for (unsigned i = 0; i < 64; i++) dig[i] = ND(u8, digest);
	res = KSI_Integer_new(ctx, T, &pd->time); ASSUME(res == KSI_OK);
	res = KSI_DataHash_fromDigest(ctx, ALGBYTE, dig, DLEN, &pd->imprint); ASSUME(res == KSI_OK);

	char *str = NULL;
	res = KSI_PublicationData_toBase32(pd, &str);
	CHECK(res == KSI_OK && str != NULL, "C17.H4 publication data encodes");
	if (res != KSI_OK || str == NULL) return;
	CHECK(crc_calls == 1 && crc_len == 8 + 1 + DLEN && crc_ival == 0, "C17.H4 CRC taken once over time and imprint, from initial value 0");
	CHECK(enc_calls == 1 && enc_len == NBIN && enc_group == 6, "C17.H4 time, imprint and CRC are encoded in groups of six");
	int ok = 1;
	for (unsigned i = 0; i < 8; i++) if (enc_bytes[i] != (u8)(T >> (8 * (7 - i)))) ok = 0;
	CHECK(ok, "C17.H4 bytes 0..7 = publication time, big-endian");
	ok = (enc_bytes[8] == ALGBYTE);
	for (unsigned i = 0; i < 64; i++) if (i < DLEN && enc_bytes[9 + i] != dig[i]) ok = 0;
	CHECK(ok, "C17.H4 then the imprint: algorithm byte and digest");
	ok = 1;
	for (unsigned i = 0; i < 4; i++) if (enc_bytes[NBIN - 4 + i] != (u8)(crc_value >> (8 * (3 - i)))) ok = 0;
	CHECK(ok, "C17.H4 then the CRC value, big-endian");
	ok = 1;
	for (unsigned i = 0; i < BMAX; i++) if (i + 4 < NBIN && crc_bytes[i] != enc_bytes[i]) ok = 0;
	CHECK(ok, "C17.H4 the CRC covers exactly time and imprint");
	ok = 1;
	for (unsigned i = 0; i < sizeof(enc_string); i++) if (str[i] != enc_string[i]) ok = 0;
	CHECK(ok, "C17.H4 the encoder's string is returned");

	/* round trip: what the encoder got is what the decoder yields */
	for (unsigned i = 0; i < BMAX; i++) BIN[i] = enc_bytes[i];
	KSI_PublicationData *back = NULL;
	res = KSI_PublicationData_fromBase32(ctx, str, &back);
	CHECK(res == KSI_OK && back != NULL, "C17.H4 the encoded publication decodes");
	if (res != KSI_OK || back == NULL) return;
	CHECK(dec_arg == str, "C17.H4 the given string is what is decoded");
	CHECK(KSI_Integer_getUInt64(back->time) == T, "C17.H4 round trip returns the same time");
	const unsigned char *imp = NULL; size_t il = 0;
	KSI_DataHash_getImprint(back->imprint, &imp, &il);
	ok = (il == 1 + DLEN && imp[0] == ALGBYTE);
	for (unsigned i = 0; i < 64; i++) if (ok && i < DLEN && imp[1 + i] != dig[i]) ok = 0;
	CHECK(ok, "C17.H4 round trip returns the same imprint");
	if (T > 0xffffffffffull && dig[0] == 0xff) WITNESS_POINT("round trip");
	KSI_PublicationData_free(back); KSI_free(str); KSI_PublicationData_free(pd);
}
#endif
