/* C04 H-a (key based): the rules that bind the calendar authentication record to a CERTIFICATE of the publications file, with the REAL
 * certificate lookup of publicationsfile.c (KSI_PublicationsFile_getPKICertificateById) and the PKI model of env/pki_model.c (OpenSSL is
 * an oracle: certificates carry two arbitrary 64-bit validity times; the raw-signature check records its arguments and returns the
 * verdict the harness chose).  References: verification_rule.h, policy.h KEY-02 / KEY-03, RFC 5280 (validity period inclusive at both ends):
 *   CalendarHashChainPresenceVerification / CalendarAuthenticationRecordPresenceVerification   OK iff the component is present, else NA
 *   CertificateExistence   OK iff the file lists a certificate whose id equals (length and bytes) the id in the authentication record;
 *                          else NA (certificate not found is inconclusive, never FAIL)
 *   CertificateValidity    that certificate: notBefore <= t <= notAfter, t = aggregation time of the calendar chain (publication time
 *                          when the element is absent)                                           else FAIL KEY-03
 *   CalendarAuthenticationRecordSignatureVerification   the PKI oracle is asked exactly once, about exactly the serialized published
 *                          data (byte for byte the TLV received), the signature value, the signature algorithm string of the record
 *                          and that certificate; its verdict KSI_OK -> OK, anything else -> FAIL KEY-02
 *   no authentication record / no certificate id / certificate not found (for the latter two rules) -> error status and NA;
 *   publications file not obtainable -> NA (error status for fatal failures), never OK / FAIL.
 * Shape: certificates in the file (0..2), id lengths, calendar aggregation-time element, caller's file or download seam.
 * Symbolic: all id bytes, validity times, calendar times, published-data bytes, signature bytes, oracle verdict, seam statuses. */
#include "verif.h"
#include "internal.h"
#include "verification_rule.h"
#include "tlv.h"
#include "ctx.h"
#include "hash_model.h"
#include "verif_post.h"
#include "types_base.c"
#include "sig_builder.h"
#define C04_WITH_PUBFILE 1
#define C04_WITH_CERTS 1
#ifndef C04_WITH_SIGDATA
#define C04_WITH_SIGDATA SB_HAS_AUTH
#endif
#ifndef C04_NPUB
#define C04_NPUB 0
#endif
#include "c04_builder.h"
#include "ext_seam.h"
/* secondary witness points are only compiled in the thorough tier (-DWITNESS_ALL): every witness costs a solver call plus a full trace */
#ifdef WITNESS_ALL
#define WITNESS_EXTRA(msg) WITNESS_POINT(msg)
#else
#define WITNESS_EXTRA(msg) ((void)0)
#endif
#ifndef PARTS
#define PARTS 7          /* 1 presence + certificate existence, 2 validity, 4 PKI signature */
#endif
#ifndef RAW_FLAGS
#define RAW_FLAGS 0x20   /* header flags of the published-data element as received (0x20 forward, 0x40 non-critical): concrete, they select the header form */
#endif
#define RAW_TIME_LEN 4
#define RAW_LEN (2 + 2 + RAW_TIME_LEN + 2 + 21)

#define IS(res_, r_, rc_, ec_) ((res_) == KSI_OK && (r_).resultCode == (rc_) && (r_).errorCode == (ec_))
#define IS_OK(res_, r_) IS(res_, r_, KSI_VER_RES_OK, KSI_VER_ERR_NONE)
#define IS_ERR(res_, r_) ((res_) != KSI_OK && (r_).resultCode == KSI_VER_RES_NA)
static int fatal(int s) { return s == KSI_OUT_OF_MEMORY || s == KSI_INVALID_ARGUMENT || s == KSI_BUFFER_OVERFLOW || s == KSI_UNKNOWN_ERROR; }

void harness(void) {
	VERIF_ctx_init();
	VERIF_hm_init(0);
	VERIF_ext_init();
	VERIF_pki_init();
	KSI_CTX *ctx = VERIF_ctx;
	sb_build(ctx);
	c04_build_pubfile(ctx);
	KSI_RuleVerificationResult r;
	int res;
	u8 raw[RAW_LEN];
#if SB_HAS_AUTH && C04_WITH_SIGDATA
	c04_build_sigdata(ctx);
#if PARTS & 4
	{	/* the published data as received: 10 LL { 02 04 <time> } { 04 15 <imprint> }, kept by the parser as base TLV with its nested elements */
		KSI_TLV *base = NULL; KSI_LIST(KSI_TLV) *nested = NULL;
		raw[0] = 0x10 | RAW_FLAGS; raw[1] = RAW_LEN - 2; raw[2] = 0x02; raw[3] = RAW_TIME_LEN;
		for (unsigned i = 0; i < RAW_TIME_LEN; i++) raw[4 + i] = ND(u8, raw_time);
		raw[4 + RAW_TIME_LEN] = 0x04; raw[5 + RAW_TIME_LEN] = 21;
		for (unsigned i = 0; i < 21; i++) raw[6 + RAW_TIME_LEN + i] = ND(u8, raw_imprint);
		res = KSI_TLV_parseBlob(ctx, raw, RAW_LEN, &base); ASSUME(res == KSI_OK && base != NULL);
		res = KSI_TLV_getNestedList(base, &nested); ASSUME(res == KSI_OK);
		sb_sig->calendarAuthRec->pubData->baseTlv = base;
	}
#endif
#endif
#if !C04_PF_USER
	VERIF_ext.pubfile = c04_pubfile;
	VERIF_ext.pubfile_res = ND(int, pubfile_res);
	VERIF_ext.pubfile_verify_res = ND(int, pubfile_verify_res);
	int fetch = VERIF_ext.pubfile_res != KSI_OK ? VERIF_ext.pubfile_res : VERIF_ext.pubfile_verify_res;
#else
	int fetch = KSI_OK;
#endif
	VERIF_pki_raw_verdict = ND(int, pki_verdict);

	/* ---- reference facts ---- */
	int n_match = 0, first = -1;
#if SB_HAS_AUTH && C04_WITH_SIGDATA && C04_SIGDATA_CERTID_LEN >= 0
	for (int i = C04_NCERT - 1; i >= 0; i--) {
		int eq = (C4.cert[i].idlen == C04_SIGDATA_CERTID_LEN);
		for (unsigned k = 0; k < C04_MAXID; k++) if (eq && k < C04_SIGDATA_CERTID_LEN && C4.cert[i].id[k] != C4.sd.certId[k]) eq = 0;
		if (eq) { n_match++; first = i; }
	}
#endif
	const int usable = SB_HAS_AUTH && C04_WITH_SIGDATA && C04_SIGDATA_CERTID_LEN >= 0;   /* authentication record with certificate id */
	u64 t = SB_HAS_CAL ? (SB_CAL_HAS_AGGRTIME ? SB.cal.aggrTime : SB.cal.pubTime) : 0;

#define FETCH_FAILED_CHECKS(name) \
		if (fatal(fetch)) CHECK(res == fetch && r.resultCode == KSI_VER_RES_NA, "C04.Hkey " name ": fatal download failure is returned as error status with NA"); \
		else CHECK(res == KSI_OK && r.resultCode == KSI_VER_RES_NA && r.status == fetch, "C04.Hkey " name ": unavailable publications file is inconclusive (NA) and records the status")

#if PARTS & 1
	sb_result_init(&r);
	res = KSI_VerificationRule_CalendarHashChainPresenceVerification(&sb_vc, &r);
	CHECK(SB_HAS_CAL ? IS_OK(res, r) : (res == KSI_OK && r.resultCode == KSI_VER_RES_NA), "C04.Hkey calendar chain presence rule is OK exactly with a calendar chain, NA otherwise");
	sb_result_init(&r);
	res = KSI_VerificationRule_CalendarAuthenticationRecordPresenceVerification(&sb_vc, &r);
	CHECK(SB_HAS_AUTH ? IS_OK(res, r) : (res == KSI_OK && r.resultCode == KSI_VER_RES_NA), "C04.Hkey authentication record presence rule is OK exactly with an authentication record, NA otherwise");

	sb_result_init(&r);
	res = KSI_VerificationRule_CertificateExistence(&sb_vc, &r);
	if (!usable) { CHECK(IS_ERR(res, r), "C04.Hkey CertificateExistence without authentication record or certificate id: error status and NA"); }
	else if (fetch != KSI_OK) { FETCH_FAILED_CHECKS("CertificateExistence"); }
	else if (n_match > 0) { CHECK(IS_OK(res, r), "C04.Hkey a certificate with the record's id is listed: OK"); }
	else { CHECK(res == KSI_OK && r.resultCode == KSI_VER_RES_NA, "C04.Hkey no certificate with the record's id: NA, never FAIL"); }
#if SB_HAS_AUTH && C04_WITH_SIGDATA && C04_SIGDATA_CERTID_LEN >= 0
#if C04_NCERT > 0
	if (fetch == KSI_OK && n_match > 0 && first == C04_NCERT - 1) WITNESS_POINT("certificate found as the last record");
#endif
	if (fetch == KSI_OK && n_match == 0) WITNESS_POINT("certificate not found");
#else
	WITNESS_POINT("no usable authentication record");
#endif
#endif

#if PARTS & 2
	sb_result_init(&r);
	res = KSI_VerificationRule_CertificateValidity(&sb_vc, &r);
	if (!usable) { CHECK(IS_ERR(res, r), "C04.Hkey CertificateValidity without authentication record or certificate id: error status and NA"); }
	else if (fetch != KSI_OK) { FETCH_FAILED_CHECKS("CertificateValidity"); }
	else if (n_match == 0) { CHECK(IS_ERR(res, r), "C04.Hkey CertificateValidity without listed certificate: error status and NA"); }
	else if (!SB_HAS_CAL) { CHECK(!(res == KSI_OK && r.resultCode == KSI_VER_RES_OK), "C04.Hkey CertificateValidity without calendar chain is never OK"); }
	else if (n_match == 1) {
		if (C4.cert[first].notBefore <= t && t <= C4.cert[first].notAfter) {
			CHECK(IS_OK(res, r), "C04.Hkey certificate valid at the aggregation time (bounds inclusive): OK");
			if (t == C4.cert[first].notBefore && t != C4.cert[first].notAfter) WITNESS_EXTRA("aggregation time equals notBefore");
			if (t == C4.cert[first].notAfter && t != C4.cert[first].notBefore) WITNESS_POINT("aggregation time equals notAfter");
		} else {
			CHECK(IS(res, r, KSI_VER_RES_FAIL, KSI_VER_ERR_KEY_3), "C04.Hkey certificate not valid at the aggregation time: FAIL KEY-03");
			if (t + 1 == C4.cert[first].notBefore) WITNESS_POINT("one second before notBefore");
			if (t == C4.cert[first].notAfter + 1 && t != 0) WITNESS_EXTRA("one second after notAfter");
		}
	}
#endif

#if PARTS & 4
	sb_result_init(&r);
	res = KSI_VerificationRule_CalendarAuthenticationRecordSignatureVerification(&sb_vc, &r);
	if (!usable) { CHECK(IS_ERR(res, r), "C04.Hkey signature rule without authentication record or certificate id: error status and NA"); CHECK(VERIF_pki_raw.calls == 0, "C04.Hkey PKI not consulted without usable record"); }
	else if (fetch != KSI_OK) { FETCH_FAILED_CHECKS("SignatureVerification"); CHECK(VERIF_pki_raw.calls == 0, "C04.Hkey PKI not consulted without publications file"); }
	else if (n_match == 0) { CHECK(IS_ERR(res, r), "C04.Hkey signature rule without listed certificate: error status and NA"); CHECK(VERIF_pki_raw.calls == 0, "C04.Hkey PKI not consulted without certificate"); WITNESS_POINT("signature rule without listed certificate"); }
	else {
#if SB_HAS_AUTH && C04_WITH_SIGDATA
		CHECK(VERIF_pki_raw.calls == 1, "C04.Hkey the PKI oracle is asked exactly once");
		int same = (VERIF_pki_raw.data_len == RAW_LEN) && !VERIF_pki_raw.data_overflow;
		for (unsigned i = 0; i < RAW_LEN; i++) if (VERIF_pki_raw.data[i] != raw[i]) same = 0;
		CHECK(same, "C04.Hkey the PKI signature is checked over exactly the published-data bytes");
		CHECK(VERIF_pki_raw.sig == c04_sd_sigval->data && VERIF_pki_raw.sig_len == C04_SIGVAL_LEN, "C04.Hkey the PKI signature value of the record is checked");
		CHECK(VERIF_pki_raw.oid == c04_sigtype, "C04.Hkey the signature algorithm of the record is used");
		if (n_match == 1) CHECK(VERIF_pki_raw.cert == c04_cert[first], "C04.Hkey the certificate with the record's id is used");
		if (VERIF_pki_raw_verdict == KSI_OK) {
			CHECK(IS_OK(res, r), "C04.Hkey PKI signature verifies: OK");
#if C04_NCERT > 0
			WITNESS_POINT("PKI signature verifies");
#endif
		} else {
			CHECK(IS(res, r, KSI_VER_RES_FAIL, KSI_VER_ERR_KEY_2), "C04.Hkey PKI signature does not verify: FAIL KEY-02");
#if C04_NCERT > 0
			if (VERIF_pki_raw_verdict == KSI_INVALID_PKI_SIGNATURE) WITNESS_POINT("PKI signature wrong");
#endif
		}
#endif
	}
#endif
#if !C04_PF_USER
	if (usable && fatal(fetch)) WITNESS_EXTRA("fatal download failure");
	if (usable && fetch != KSI_OK && !fatal(fetch)) WITNESS_POINT("publications file unavailable");
#endif
}
