#!/usr/bin/env python3
"""Generates harness/C18/plan.json.  Run: python3 harness/C18/mkplan.py
h1_structure instances are GROUPS of concrete record-kind sequences (see h1_structure.c)."""
import itertools, json, os
HERE = os.path.dirname(os.path.abspath(__file__))
MAXREC = 6

# ---------------------------------------------------------------- h1: sequences
def analyse(seq, trail=0, cut=0, empty_mask=0):
    """which verdicts are possible over the symbolic N flags (mirror of the reference in h1_structure.c, only used to guard witness points)"""
    res = {"bad": False, "good": False, "dup": False, "recs": False, "min": False, "unk": False}
    for flags in itertools.product([0, 1], repeat=len(seq)):
        phase, bad, dup, nc, npb, sig = 0, False, False, 0, 0, None
        for i, k in enumerate(seq):
            if phase == 3: bad = True; continue
            if k == 1:
                if phase == 0: phase = 1
                else:
                    bad = True
                    if flags[i]: dup = True
            elif k == 2:
                if phase == 1: nc += 1
                else: bad = True
            elif k == 3:
                if phase in (1, 2): phase = 2; npb += 1
                else: bad = True
            elif k == 4:
                if phase in (1, 2): phase = 3; sig = i
                else: bad = True
            else:
                if not flags[i]: bad = True
        if dup: res["dup"] = True
        ok = (not bad) and phase == 3
        if not ok: res["bad"] = True
        else:
            res["good"] = True
            sig_empty = (empty_mask >> sig) & 1
            if trail == 0 and cut == 0 and not sig_empty:
                if nc + npb >= 1: res["recs"] = True
                if len(seq) == 2: res["min"] = True
                if len(seq) > 2 + nc + npb: res["unk"] = True
    return res


def case(seq, trail=0, cut=0, empty_mask=0):
    return {"seq": list(seq), "trail": trail, "cut": cut, "empty": empty_mask}


def group(label, cases):
    cs = ",".join("{%d,{%s},%d,%d,%d}" % (len(c["seq"]), ",".join(map(str, c["seq"])) if c["seq"] else "0", c["trail"], c["cut"], c["empty"]) for c in cases)
    d = ["NCASES=%d" % len(cases), "CASES={%s}" % cs]
    an = [analyse(c["seq"], c["trail"], c["cut"], c["empty"]) for c in cases]
    tiles = [c["trail"] == 0 and c["cut"] == 0 for c in cases]
    if any(a["bad"] and t and len(c["seq"]) > 0 for a, t, c in zip(an, tiles, cases)): d.append("W_BADSEQ=1")
    if any(a["good"] for a in an): d.append("W_MAGIC=1")
    if any(a["good"] and not t for a, t in zip(an, tiles)): d.append("W_TILING=1")
    if any(a["recs"] for a in an): d.append("W_RECS=1")
    if any(a["min"] for a in an): d.append("W_MIN=1")
    if any(a["unk"] for a in an): d.append("W_UNK=1")
    if any(a["dup"] for a in an): d.append("W_DUP=1")
    return {"label": label, "defines": d}


def chunks(l, n, weight=14):
    """groups of at most n cases and at most `weight` records (+1 per case): cost grows with the number of parsed records"""
    out, cur, w = [], [], 0
    for c in l:
        cw = len(c["seq"]) + 1
        if cur and (len(cur) >= n or w + cw > weight):
            out.append(cur); cur, w = [], 0
        cur.append(c); w += cw
    if cur: out.append(cur)
    return out


ALPHA = [1, 2, 3, 4, 5]           # header, certificate, publication, signature, unknown 0x0705
all_le2 = [case(s) for n in range(0, 3) for s in itertools.product(ALPHA, repeat=n)]
all_3 = [case(s) for s in itertools.product(ALPHA, repeat=3)]
all_4_h = [case((1,) + s) for s in itertools.product(ALPHA, repeat=3)]          # header first, every continuation of 3
special = [
    case((1, 2, 3, 4)), case((1, 2, 2, 3, 3, 4)), case((1, 3, 2, 4)), case((1, 2, 3, 4, 4)), case((1, 2, 3, 4, 5)), case((1, 2, 3, 4, 7)),
    case((5, 1, 6, 2, 7, 4)), case((1, 8, 3, 8, 4)), case((7, 1, 4)), case((6, 1, 4)), case((1, 1, 4)), case((1, 2, 1, 4)), case((1, 3, 1, 4)),
    case((2, 1, 4)), case((1, 4), trail=1), case((1, 2, 3, 4), trail=1), case((1, 4), cut=1), case((1, 4), cut=3), case((1, 3, 4), cut=2),
    case((1, 4), empty_mask=2), case((1, 4), empty_mask=1), case((1, 2, 3, 4), empty_mask=7), case((1, 2, 3), trail=1), case((1,), cut=2),
]
Q = chunks(all_le2, 8) + chunks(special, 6)
T = chunks(all_le2 + all_3 + all_4_h, 10, 30) + chunks(special, 6, 30)
RFP = [
    "storeObjectValue.function_pointer_call.1/KSI_PublicationsFile_getCertificates,KSI_PublicationsFile_getPublications",
    "storeObjectValue.function_pointer_call.2/KSI_CertificateRecordList_new,KSI_PublicationRecordList_new",
    "storeObjectValue.function_pointer_call.3/KSI_List_append",
    "storeObjectValue.function_pointer_call.4/KSI_PublicationsFile_setCertificates,KSI_PublicationsFile_setPublications",
    "storeObjectValue.function_pointer_call.5/KSI_PublicationsFile_setHeader,KSI_PublicationsFile_setSignature,stub_set",
    "storeObjectValue.function_pointer_call.6/KSI_CertificateRecordList_free,KSI_PublicationRecordList_free",
    "extractObject.function_pointer_call.2/KSI_PKISignature_fromTlv,stub_fromTlv",
    "extractObject.function_pointer_call.3/KSI_PKISignature_free,stub_free",
    "extractComposite.function_pointer_call.1/KSI_PublicationsHeader_new,KSI_CertificateRecord_new,KSI_PublicationRecord_new",
    "extractComposite.function_pointer_call.2/KSI_PublicationsHeader_free,KSI_CertificateRecord_free,KSI_PublicationRecord_free",
    "extractGenerator.function_pointer_call.1/generateNextTlv,TLVListIterator_next",
    "extractGenerator.function_pointer_call.2/KSI_PublicationsFile_getHeader,KSI_PublicationsFile_getCertificates,KSI_PublicationsFile_getPublications,KSI_PublicationsFile_getSignature,stub_get",
    "KSI_List_free.function_pointer_call.1/KSI_CertificateRecord_free,KSI_PublicationRecord_free,KSI_TLV_free"]
h1 = {"name": "h1_structure", "src": "h1_structure.c", "env": ["ctx", "list_wrap", "fmt_stub", "c18_pki_model", "hash_model"],
      "tus": ["tlv_template", "fast_tlv", "types", "types_base", "hash", "pkitruststore"],
      "unwind": 8, "unwindset": ["KSI_List_free.0:8", "KSI_List_free:3", "KSI_TLV_free:3", "KSI_TLVList_free:3"],
      "timeout": 300, "mem_gb": 8, "object_bits": 13, "restrict_fp": RFP,
      "functions": ["KSI_PublicationsFile_parse", "generateNextTlv", "KSI_TlvTemplate_extractGenerator", "extractGenerator", "extractComposite", "extractObject", "storeObjectValue",
                    "KSI_TLV_parseBlob2", "encodeAsNestedTlvs", "KSI_FTLV_memRead (in-situ obligation)", "KSI_PKISignature_fromTlv", "KSI_PublicationsFile_getSignedDataLength", "KSI_PublicationsFile_verify"],
      "bound": "quick: EVERY sequence of 0..2 records over {header, certificate, publication, signature, unknown} plus 24 selected sequences of up to 6 records (full files, misplaced / repeated / trailing records, "
               "unknown records in TLV8/TLV16 form, one trailing byte, truncated last record, empty payloads); thorough: additionally every sequence of 3 records and every sequence of 4 starting with a header. "
               "Per sequence: non-critical and forward flag of every record, all payload bytes and the magic symbolic; payload lengths 0..5 fixed by position",
      "instances": [group("q%02d" % i, g) for i, g in enumerate(Q)],
      "thorough": {"instances": [group("t%02d" % i, g) for i, g in enumerate(T)], "timeout": 1800}}
h1["instances"][0]["defines"].append("SHORT_INPUTS=1")
h1["thorough"]["instances"][0]["defines"].append("SHORT_INPUTS=1")

# ---------------------------------------------------------------- h2 verify wiring
h2i = []
for sig, raw, con, ca, st in [(1, 1, 0, 1, 1), (1, 1, 1, 1, 0), (1, 1, 1, 0, 1), (1, 1, 0, 0, 0), (0, 1, 0, 1, 1), (0, 0, 1, 0, 0), (1, 0, 0, 1, 1)]:
    h2i.append({"label": "sig%d_raw%d_con%d_ctx%d_store%d" % (sig, raw, con, ca, st),
                "defines": ["HAS_SIG=%d" % sig, "HAS_RAW=%d" % raw, "HAS_CONSTR=%d" % con, "CTX_ARG=%d" % ca, "HAS_STORE=%d" % st]})
h2 = {"name": "h2_verify", "src": "h2_verify.c", "env": ["ctx", "list_wrap", "fmt_stub", "c18_pki_model", "hash_model"],
      "tus": ["publicationsfile", "types", "types_base", "hash", "tlv"], "unwind": 6, "timeout": 300, "mem_gb": 8, "object_bits": 12,
      "functions": ["KSI_PublicationsFile_verify", "KSI_CTX_getPKITruststore (model transcription of base.c)"],
      "bound": "file object with / without signature, raw bytes, file-level constraints; context passed or NULL; truststore present or created on demand; raw length, signed length (any size_t) and the PKI verdict (any int) symbolic",
      "instances": h2i}

# ---------------------------------------------------------------- h3 lookups
h3i = [
    {"label": "p0c0_absent", "defines": ["NPUB=0", "NCERT=0"]},
    {"label": "p0c0_empty", "defines": ["NPUB=0", "NCERT=0", "EMPTY_LISTS=1"]},
    {"label": "p1c1", "defines": ["NPUB=1", "NCERT=1"]},
    {"label": "p2c2", "defines": ["NPUB=2", "NCERT=2", "IDLENS={3,3,3,3}", "QLEN=3"]},
    {"label": "p3c3_mixed", "defines": ["NPUB=3", "NCERT=3", "IDLENS={1,2,3,2}", "QLEN=2"]},
    {"label": "p3c3_len0", "defines": ["NPUB=3", "NCERT=3", "IDLENS={1,0,1,0}", "QLEN=0", "CERT_ALWAYS_HIT=1"]},
    {"label": "p4c4", "defines": ["NPUB=4", "NCERT=4"]},
    {"label": "p4c4_q1", "defines": ["NPUB=4", "NCERT=4", "IDLENS={1,2,1,1}", "QLEN=1"]}]
h3 = {"name": "h3_lookup", "src": "h3_lookup.c", "env": ["ctx", "hash_model", "list_wrap", "fmt_stub", "c18_pki_model"],
      "tus": ["publicationsfile", "types", "hash", "tlv"], "unwind": 6, "timeout": 300, "mem_gb": 8, "object_bits": 12, "leak_check": True,
      "restrict_fp": ["KSI_List_free.function_pointer_call.1/KSI_PublicationRecord_free,KSI_CertificateRecord_free"],
      "functions": ["KSI_PublicationsFile_getPublicationDataByTime", "KSI_PublicationsFile_getNearestPublication", "KSI_PublicationsFile_getLatestPublication", "KSI_PublicationsFile_findPublicationByTime",
                    "KSI_PublicationsFile_findPublication", "findPublication", "KSI_PublicationsFile_getPKICertificateById", "KSI_Integer_compare", "KSI_Integer_equals", "KSI_OctetString_equals", "KSI_DataHash_equals"],
      "bound": "publication lists of 0..4 records (absent list and empty list), certificate lists of 0..4 records with id lengths 0..4 (equal, shorter and longer than the query id); all times (64 bit), imprint bytes, id bytes and the query symbolic",
      "instances": h3i}
h3int = {"name": "h3_int", "src": "h3_int.c", "env": ["ctx"], "tus": ["types_base"], "unwind": 2, "timeout": 300, "mem_gb": 8, "object_bits": 12,
         "functions": ["KSI_Integer_new", "KSI_Integer_getUInt64", "KSI_Integer_equals", "KSI_Integer_compare", "KSI_Integer_free"], "bound": "all pairs of 64-bit values", "solver": "cadical"}

def h2b_inst(f, c, tl=(2, 2), vl=(2, 2), label=None):
    nact = f if f >= 0 else c
    d = ["NFILE=%d" % f, "NCTX=%d" % c, "TLENS={%d,%d}" % tl, "VLENS={%d,%d}" % vl]
    if nact >= 1 and all(tl[i] == vl[i] for i in range(nact)): d.append("W_TRUSTED=1")
    if nact >= 1 and tl[0] != vl[0]: d.append("W_PREFIX=1")
    if nact >= 1 and tl[0] == 0 and vl[0] == 0: d.append("W_NO_MISMATCH=1")
    return {"label": label or "file%s_ctx%s" % (str(f).replace("-1", "none"), str(c).replace("-1", "none")), "defines": d}


H2B = [h2b_inst(f, c) for f, c in [(-1, -1), (-1, 0), (-1, 1), (-1, 2), (0, 2), (1, -1), (1, 2), (2, 1), (2, -1)]] + [
    h2b_inst(1, -1, (2, 3), (3, 3), "len_text2_value3"), h2b_inst(1, -1, (3, 2), (2, 2), "len_text3_value2"),
    h2b_inst(1, -1, (0, 2), (1, 2), "len_text0_value1"), h2b_inst(-1, 1, (1, 2), (0, 2), "len_text1_value0"),
    h2b_inst(1, -1, (3, 3), (3, 3), "len_text3_value3"), h2b_inst(1, -1, (0, 0), (0, 0), "len_both_empty"),
    h2b_inst(2, -1, (2, 1), (2, 3), "len_second_text1_value3"), h2b_inst(-1, 2, (3, 3), (3, 1), "len_second_text3_value1")]
h2b = {"name": "h2b_constraints", "src": "h2b_constraints.c", "env": ["ctx", "fmt_stub"], "tus": [], "unwind": 6, "harness_unwind": 260, "timeout": 300, "mem_gb": 8, "object_bits": 12,
       "functions": ["KSI_PKITruststore_verifyPKISignature", "pki_truststore_verifySignature", "KSI_PKITruststore_verifySignatureCertificate", "pki_truststore_verifyCertificateConstraints", "KSI_PKISignature_extractCertificate", "KSI_PKICertificate_free"],
       "bound": "file-level constraint set absent / 0..2 entries x context-level set absent / 0..2 entries; attribute text and configured value of length 0..3 each (equal, text shorter, text longer, empty); every OpenSSL outcome and every character symbolic; attribute texts that do not fit the 256-byte buffer are outside",
       "instances": H2B}

plan = {"property": "C18", "outside": "TBD", "assumptions": [], "manifest": {"claimed": True, "level_text": "TBD", "level_note": "TBD"},
        "harnesses": [h1, h2, h2b, h3, h3int]}
extra = os.path.join(HERE, "plan_extra.json")
if os.path.exists(extra):
    e = json.load(open(extra))
    for k in ("outside", "assumptions", "manifest"):
        if k in e: plan[k] = e[k]
    plan["harnesses"] += e.get("harnesses", [])
json.dump(plan, open(os.path.join(HERE, "plan.json"), "w"), indent=1)
print("wrote plan.json: %s" % ", ".join("%s(%d/%d)" % (h["name"], len(h.get("instances", [1])), len(h.get("thorough", {}).get("instances", h.get("instances", [1])))) for h in plan["harnesses"]))
