/* The REAL net.c, linked for its pure helpers (KSI_convertExtenderStatusCode ...).  The three request-handle entry points
 * that env/ext_seam.c replaces are renamed in this TU only, so that the seam's definitions are the ones the rule code reaches. */
#define KSI_RequestHandle_perform C04_unreached_real_RequestHandle_perform
#define KSI_RequestHandle_getExtendResponse C04_unreached_real_RequestHandle_getExtendResponse
#define KSI_RequestHandle_free C04_unreached_real_RequestHandle_free
#include "internal.h"
#include "ksi.h"
#include "tlv.h"
#include "tlv_element.h"
#include "tlv_template.h"
#include "hashchain.h"
#include "net.h"
#include "net_async.h"
#include "net_ha.h"
#include "policy.h"
#include "verif_post.h"
#include "net.c"
