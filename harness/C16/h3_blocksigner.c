/* C16 H-3: block signer (real blocksigner.c + tree_builder.c, both included) on the memoising hash model.
 *
 * Shape (concrete per instance): NLEAVES leaves with SHA2-256 imprints, MDS[i] = 1: leaf i is added with a metadata
 * object (4-byte payload), MASK = 1: the signer is created with a previous leaf value and an 8-byte initial value
 * (blinding masks on).  Symbolic: all digests, payloads, iv bytes, every leaf level (as far as the two extra levels
 * of the processors fit below 255).
 *
 * MODE 1 (leaves): every KSI_BlockSigner_addLeaf succeeds and returns a handle; after KSI_BlockSigner_closeAndSign
 *   (KSI_Signature_signAggregated is a recording stub - signing needs a server) the stub was given exactly the
 *   builder's root hash and level, and for EVERY leaf the aggregation chain of its handle, folded by the harness'
 *   own chain formula from the leaf's ORIGINAL hash and level, ends at exactly that root (= the per-leaf signature
 *   built by KSI_BlockSignerHandle_getSignature verifies for the leaf's hash as far as the local chain is
 *   concerned; getSignature itself is outside).  Metadata, when given, is the sibling of the first link (comment in
 *   KSI_BlockSigner_new).  Blinding: the first imprint sibling on the left is the mask H(previous leaf || iv)
 *   where "previous leaf" is the creation-time value for leaf 0 and afterwards the value the chain of the preceding
 *   leaf has right after its mask link; KSI_BlockSigner_getPrevLeaf returns the last such value.
 * MODE 2 (reset): after leaves were added (and the tree closed), KSI_BlockSigner_reset leaves the signer in the
 *   state of a newly created one: empty builder of the same algorithm, no signature, previous leaf = the
 *   creation-time value, no pending metadata, and the SAME sequence of leaf processors as KSI_BlockSigner_new
 *   installs (order matters: it decides whether metadata or the mask is joined first, i.e. the root hash);
 *   adding the same leaf to the reset signer and to a new signer gives the same root.
 * Never calls KSI_BlockSigner_free / KSI_TreeBuilder_free directly (reset does call the latter: MODE 2 only). */
#include "verif.h"
#include "internal.h"
#include "tree_builder.h"
#include "blocksigner.h"
#include "signature.h"
#include "policy.h"
#include "hashchain.h"
#include "impl/hashchain_impl.h"
#include "ctx.h"
#include "hash_model.h"
#include "verif_post.h"
#include "c16_ref.h"
#include "c16_md.h"
#include "c16_instr.h"
#include "tree_builder.c"
#include "blocksigner.c"

#ifndef MODE
#define MODE 1
#endif
#ifndef NLEAVES
#define NLEAVES 2
#endif
#ifndef MDS
#define MDS {1, 1, 1, 1, 1, 1, 1, 1}
#endif
#ifndef MASK
#define MASK 1
#endif
#define ALG KSI_HASHALG_SHA2_256
#define IVLEN 8
#define MAXLINKS 8
static const int mds[8] = MDS;

/* ---- recording stubs for the signing service ---- */
static int the_signature;    /* stands for the signature object; never dereferenced */
static unsigned sign_calls; static KSI_DataHash *sign_hash; static KSI_uint64_t sign_level;
/* KSI_Signature_signAggregated is a macro for ...WithPolicy(ctx, hash, level, KSI_VERIFICATION_POLICY_INTERNAL, NULL, sig) */
const KSI_Policy *KSI_VERIFICATION_POLICY_INTERNAL = NULL;   /* policy.c is not linked; the value is only passed through */
int KSI_Signature_signAggregatedWithPolicy(KSI_CTX *ctx, KSI_DataHash *rootHash, KSI_uint64_t rootLevel, const KSI_Policy *policy, KSI_VerificationContext *context, KSI_Signature **signature) {
	(void)ctx; (void)policy; (void)context; sign_calls++; sign_hash = rootHash; sign_level = rootLevel;
	*signature = (KSI_Signature *)&the_signature;
	return KSI_OK;
}
void KSI_Signature_free(KSI_Signature *sig) {
	CHECK(sig == NULL || sig == (KSI_Signature *)&the_signature, "C16.H3 only the signature obtained from the signing service is released");
}

/* look up H(a || b) (no level byte) in the record table */
static int lookup2(const u8 *a, unsigned al, const u8 *b, unsigned bl, u8 *digest /* 32 */) {
	int found = 0;
	for (unsigned q = 0; q < HM_REC_MAX; q++) {
		if (q < VERIF_hm_nrec && VERIF_hm_rec[q].alg == ALG && VERIF_hm_rec[q].len == al + bl) {
			int eq = !found;
			for (unsigned k = 0; k < 48; k++) {
				if (k < al) eq = eq & (VERIF_hm_rec[q].msg[k] == a[k]);
				else if (k < al + bl) eq = eq & (VERIF_hm_rec[q].msg[k] == b[k - al]);
			}
			for (unsigned k = 0; k < 32; k++) digest[k] = eq ? VERIF_hm_rec[q].digest[k] : digest[k];
			found = found | eq;
		}
	}
	return found;
}

static struct c16_val leafv[NLEAVES];
static KSI_BlockSignerHandle *handle[NLEAVES];
static u8 ivb[IVLEN];

static int same_bytes(const struct c16_val *a, const unsigned char *p, size_t n) {
	int eq = (n == a->len);
	for (unsigned k = 0; k < C16_VMAX; k++) if (eq && k < a->len && p[k] != a->b[k]) eq = 0;
	return eq;
}

/* fold leaf i's chain; prev (in/out) = previous-leaf imprint for the mask (33 bytes) */
static void check_leaf(unsigned i, const struct c16_val *root, u8 *prev) {
	KSI_AggregationHashChain *chain = NULL;
	int res = KSI_TreeLeafHandle_getAggregationChain(handle[i]->leafHandle, &chain);
	CHECK(res == KSI_OK && chain != NULL, "C16.H3 an aggregation chain is returned for every leaf of the block");
	if (res != KSI_OK || chain == NULL) return;
	const unsigned char *imp = NULL; size_t il = 0;
	CHECK(chain->inputHash != NULL, "C16.H3 the chain starts at a hash");
	if (chain->inputHash == NULL) return;
	KSI_DataHash_getImprint(chain->inputHash, &imp, &il);
	CHECK(same_bytes(&leafv[i], imp, il), "C16.H3 the chain starts at the hash the caller added (not at a masked or joined value)");

	struct c16_val cur = leafv[i], sib, nxt;
	u64 level = leafv[i].level;
	size_t n = KSI_HashChainLinkList_length(chain->chain);
	CHECK(n <= MAXLINKS, "C16.H3 chain no longer than the harness bound");
	int mask_seen = 0;
	for (unsigned k = 0; k < MAXLINKS; k++) {
		if (k < n) {
			KSI_HashChainLink *link = NULL;
			res = KSI_HashChainLinkList_elementAt(chain->chain, k, &link);
			CHECK(res == KSI_OK && link != NULL, "C16.H3 chain link readable");
			if (res != KSI_OK || link == NULL) return;
			u64 corr = link->levelCorrection != NULL ? KSI_Integer_getUInt64(link->levelCorrection) : 0;
			level = level + corr + 1;
			CHECK(corr <= 255 && level <= 255, "C16.H3 chain levels stay within 0..255");
			CHECK((link->imprint != NULL) != (link->metaData != NULL) && link->legacyId == NULL, "C16.H3 link has exactly one sibling");
			sib.level = 0;
			if (k == 0 && mds[i]) CHECK(link->metaData != NULL, "C16.H3 the leaf's metadata is the sibling of its first link");
			if (link->imprint != NULL) {
				KSI_DataHash_getImprint(link->imprint, &imp, &il);
				CHECK(il <= C16_VMAX, "C16.H3 sibling imprint length");
				sib.len = (unsigned)il;
				for (unsigned q = 0; q < C16_VMAX; q++) sib.b[q] = (q < il) ? imp[q] : 0;
#if MASK
				if (!mask_seen) {
					/* the first imprint sibling is the blinding mask: on the left, = H(previous leaf || iv) */
					u8 m[32]; for (unsigned q = 0; q < 32; q++) m[q] = 0;
					int f = lookup2(prev, 33, ivb, IVLEN, m);
					int eq = (il == 33 && imp[0] == ALG);
					for (unsigned q = 0; q < 32; q++) if (eq && imp[1 + q] != m[q]) eq = 0;
					CHECK(f && eq, "C16.H3 blinding mask = H(previous leaf || initial value)");
					CHECK(!link->isLeft && corr == 0, "C16.H3 the mask is joined on the left, at the level of the value it blinds");
				}
#endif
			} else if (link->metaData != NULL) {
				KSI_TlvElement *el = link->metaData->impl;
				CHECK(el != NULL && el->ftlv.tag == 0x04 && el->ftlv.dat_len <= C16_VMAX, "C16.H3 metadata sibling is a TLV 04 element");
				if (el == NULL) return;
				sib.len = (unsigned)el->ftlv.dat_len;
				for (unsigned q = 0; q < C16_VMAX; q++) sib.b[q] = (q < el->ftlv.dat_len) ? el->ptr[el->ftlv.hdr_len + q] : 0;
			} else return;
			if (link->isLeft) c16_H(ALG, &cur, &sib, (unsigned)level, &nxt);
			else c16_H(ALG, &sib, &cur, (unsigned)level, &nxt);
			cur = nxt;
#if MASK
			if (link->imprint != NULL && !mask_seen) {
				mask_seen = 1;
				for (unsigned q = 0; q < 33; q++) prev[q] = cur.b[q];      /* the masked leaf = next "previous leaf" */
			}
#endif
		}
	}
	CHECK(c16_H_missing == 0, "C16.H3 every chain step recomputes a hash the signer computed");
	CHECK(same_bytes(root, cur.b, cur.len), "C16.H3 folded chain ends at the signed root hash");
	CHECK(level == root->level, "C16.H3 folded chain ends at the signed root level");
#if MASK
	CHECK(mask_seen, "C16.H3 every leaf is blinded");
#endif
}

static KSI_DataHash *sym_hash(KSI_CTX *ctx, u8 *bytes33) {
	KSI_DataHash *h = NULL; u8 d[32];
	for (unsigned k = 0; k < 32; k++) { d[k] = ND(u8, digest); bytes33[1 + k] = d[k]; }
	bytes33[0] = ALG;
	int res = KSI_DataHash_fromDigest(ctx, ALG, d, 32, &h); ASSUME(res == KSI_OK);
	return h;
}

void harness(void) {
	VERIF_ctx_init(); VERIF_hm_init(1);
	KSI_CTX *ctx = VERIF_ctx; int res;
	u8 prev0[33]; KSI_DataHash *prevLeaf = NULL; KSI_OctetString *iv = NULL;
#if MASK
	prevLeaf = sym_hash(ctx, prev0);
	for (unsigned k = 0; k < IVLEN; k++) ivb[k] = ND(u8, iv);
	res = KSI_OctetString_new(ctx, ivb, IVLEN, &iv); ASSUME(res == KSI_OK);
#endif
	KSI_BlockSigner *s = NULL;
	VERIF_expect_no_error = 1;
	res = KSI_BlockSigner_new(ctx, ALG, prevLeaf, iv, &s);
	CHECK(res == KSI_OK && s != NULL, "C16.H3 a block signer is created");
	if (res != KSI_OK || s == NULL) return;

#if MODE == 1
	unsigned nmd = 0;
	for (unsigned i = 0; i < NLEAVES; i++) {
		int level = ND(int, level);
		/* stay clear of the top: the processors add up to two levels, the tree up to log2(NLEAVES)+1 more */
		ASSUME(level >= 0 && level <= 255 - 2 - 4);
		KSI_DataHash *x = sym_hash(ctx, leafv[i].b); leafv[i].len = 33; leafv[i].level = (unsigned)level;
		KSI_MetaData *md = NULL;
		if (mds[i]) { u8 p[C16_MDLEN]; for (unsigned k = 0; k < C16_MDLEN; k++) p[k] = ND(u8, md); md = c16_md_make(ctx, nmd++, p); }
		handle[i] = NULL;
		res = KSI_BlockSigner_addLeaf(s, x, level, md, &handle[i]);
		CHECK(res == KSI_OK && handle[i] != NULL, "C16.H3 a leaf is accepted and a handle returned");
		if (res != KSI_OK || handle[i] == NULL) return;
	}
	res = KSI_BlockSigner_closeAndSign(s);
	CHECK(res == KSI_OK, "C16.H3 the block closes and is signed");
	if (res != KSI_OK) return;
	CHECK(VERIF_hm_overflow == 0, "C16.H3 hash model large enough");
	CHECK(sign_calls == 1 && s->builder->rootNode != NULL && sign_hash == s->builder->rootNode->hash && sign_level == s->builder->rootNode->level,
		"C16.H3 exactly the root hash and root level of the tree are sent for signing");
	if (s->builder->rootNode == NULL || s->builder->rootNode->hash == NULL) return;
	struct c16_val root; const unsigned char *imp = NULL; size_t il = 0;
	KSI_DataHash_getImprint(s->builder->rootNode->hash, &imp, &il);
	root.len = (unsigned)il; root.level = s->builder->rootNode->level;
	for (unsigned q = 0; q < C16_VMAX; q++) root.b[q] = (q < il) ? imp[q] : 0;
	u8 prev[33]; for (unsigned q = 0; q < 33; q++) prev[q] = MASK ? prev0[q] : 0;
	for (unsigned i = 0; i < NLEAVES; i++) check_leaf(i, &root, prev);
#if MASK
	KSI_DataHash *pl = NULL;
	res = KSI_BlockSigner_getPrevLeaf(s, &pl);
	CHECK(res == KSI_OK && pl != NULL, "C16.H3 previous leaf available");
	if (pl != NULL) {
		KSI_DataHash_getImprint(pl, &imp, &il);
		int eq = (il == 33); for (unsigned q = 0; q < 33; q++) if (eq && imp[q] != prev[q]) eq = 0;
		CHECK(eq, "C16.H3 getPrevLeaf = the last masked leaf value");
	}
#endif
	VERIF_expect_no_error = 0;
#if NLEAVES >= 2
	if (leafv[0].level > 2 && leafv[NLEAVES - 1].level == 0) WITNESS_POINT("block signed, every leaf chain reaches the root");
#else
	if (leafv[0].level > 2) WITNESS_POINT("block signed, every leaf chain reaches the root");
#endif
#else
	/* ---- MODE 2: reset == new ---- */
	u8 xb[33]; KSI_DataHash *x = sym_hash(ctx, xb);
	u8 p[C16_MDLEN]; for (unsigned k = 0; k < C16_MDLEN; k++) p[k] = ND(u8, md);
	KSI_MetaData *md = c16_md_make(ctx, 0, p);
	int level = ND(int, level); ASSUME(level >= 0 && level <= 200);
	KSI_BlockSignerHandle *h1 = NULL;
	for (unsigned i = 0; i < NLEAVES; i++) {
		h1 = NULL;
		res = KSI_BlockSigner_addLeaf(s, x, level, md, &h1);
		CHECK(res == KSI_OK, "C16.H3 leaf accepted before the reset");
		if (res != KSI_OK) return;
	}
#ifdef CLOSE_BEFORE_RESET
	res = KSI_BlockSigner_closeAndSign(s);
	CHECK(res == KSI_OK, "C16.H3 block closed before the reset");
	if (res != KSI_OK) return;
#endif
	res = KSI_BlockSigner_reset(s);
	CHECK(res == KSI_OK, "C16.H3 reset succeeds");
	if (res != KSI_OK) return;

	KSI_BlockSigner *fresh = NULL;
	res = KSI_BlockSigner_new(ctx, ALG, prevLeaf, iv, &fresh);
	CHECK(res == KSI_OK && fresh != NULL, "C16.H3 a second signer is created");
	if (res != KSI_OK || fresh == NULL) return;

	/* state, field by field */
	CHECK(s->signature == NULL && s->metaData == NULL, "C16.H3 reset signer has no signature and no pending metadata");
	CHECK(s->prevLeaf == s->origPrevLeaf && s->origPrevLeaf == prevLeaf && s->iv == iv, "C16.H3 reset signer masks from the creation-time previous leaf and initial value");
	CHECK(s->builder != NULL && s->builder->rootNode == NULL && s->builder->algo == fresh->builder->algo && s->builder->maxTreeLevel == fresh->builder->maxTreeLevel,
		"C16.H3 reset signer has an open, empty builder of the same algorithm and limit");
	if (s->builder == NULL) return;
	int empty = 1;
	for (unsigned i = 0; i < KSI_TREE_BUILDER_STACK_LEN; i++) if (s->builder->stack[i] != NULL) empty = 0;
	CHECK(empty, "C16.H3 reset builder holds no subtree");
	size_t np = KSI_TreeBuilderLeafProcessorList_length(s->builder->cbList);
	CHECK(np == KSI_TreeBuilderLeafProcessorList_length(fresh->builder->cbList) && np == 2, "C16.H3 reset signer has as many leaf processors as a new one");
	for (unsigned i = 0; i < 2; i++) {
		KSI_TreeBuilderLeafProcessor *a = NULL, *b = NULL;
		KSI_TreeBuilderLeafProcessorList_elementAt(s->builder->cbList, i, &a);
		KSI_TreeBuilderLeafProcessorList_elementAt(fresh->builder->cbList, i, &b);
		CHECK(a != NULL && b != NULL && a->fn == b->fn && a->levelOverhead == b->levelOverhead && a->c == (void *)s && b->c == (void *)fresh,
			"C16.H3 reset signer runs the same leaf processors in the same order as a new one (metadata first, then mask)");
	}
#ifdef STATE_ONLY
	VERIF_expect_no_error = 0;
	if (level == 7) WITNESS_POINT("reset signer compared with a new one");
#else
	/* behaviour: the same leaf gives the same root */
	KSI_BlockSignerHandle *ha = NULL, *hb = NULL;
	res = KSI_BlockSigner_addLeaf(s, x, level, md, &ha);
	CHECK(res == KSI_OK, "C16.H3 reset signer accepts a leaf");
	if (res != KSI_OK) return;
	res = KSI_BlockSigner_addLeaf(fresh, x, level, md, &hb);
	CHECK(res == KSI_OK, "C16.H3 new signer accepts the same leaf");
	if (res != KSI_OK) return;
	res = KSI_TreeBuilder_close(s->builder); CHECK(res == KSI_OK, "C16.H3 reset signer's tree closes");
	if (res != KSI_OK) return;
	res = KSI_TreeBuilder_close(fresh->builder); CHECK(res == KSI_OK, "C16.H3 new signer's tree closes");
	if (res != KSI_OK) return;
	CHECK(s->builder->rootNode->level == fresh->builder->rootNode->level && KSI_DataHash_equals(s->builder->rootNode->hash, fresh->builder->rootNode->hash),
		"C16.H3 a reset signer computes the same root for the same leaf as a new signer");
	VERIF_expect_no_error = 0;
	if (level == 7) WITNESS_POINT("reset signer and new signer computed the same root");
#endif /* STATE_ONLY */
#endif
}
