/* C07 H-2: gate order of KSI_Signature_signAggregatedWithPolicy (signature.c, real; KSI_createSignRequest real).
 * Every callee outside signature.c is a stub with a symbolic status (c07_gates.h).  For ALL combinations of callee
 * outcomes, all root levels (64 bit), trusted and untrusted hash algorithms:
 *   success  =>  send, perform, getAggregationResponse (the MAC gate, C06 H-5), KSI_AggregationResp_verifyWithRequest,
 *                builder open, builder close and KSI_Signature_verifyWithPolicy were each passed exactly once, in this
 *                order, all with KSI_OK, on the SAME objects: the request that was sent carries the caller's hash object
 *                and level, the response that was checked against that request is the one the signature is built from,
 *                the builder is closed unverified (noVerify=1) with the caller's level, and the result is verified against
 *                the CALLER's hash; the returned signature is that verified object.
 *   any gate fails  =>  that status is returned, no later gate is reached, *signature is untouched, and request, handle,
 *                response, builder and the half-built signature are released exactly once.
 *   level > 0xff or untrusted (deprecated) hash algorithm  =>  refused before anything is sent.
 * Shape: hash algorithm id symbolic among the ids with a 20- or 32-byte digest (HL concrete per instance). */
#include "verif.h"
#include "internal.h"
#include "tlv.h"
#include "tlv_template.h"
#include "hashchain.h"
#include "net.h"
#include "pkitruststore.h"
#include "policy.h"
#include "signature_builder.h"
#include "impl/ctx_impl.h"
#include "impl/hash_impl.h"
#include "impl/publicationsfile_impl.h"
#include "impl/verification_impl.h"
#include "ctx.h"
#include "verif_post.h"
#include "c07_gates.h"

#ifndef HL
#define HL 32
#endif

/* request model (types.c is not linked) */
struct KSI_AggregationReq_st { KSI_DataHash *hash; KSI_Integer *level; unsigned freed; };
struct KSI_AggregationResp_st { unsigned freed; };
static KSI_AggregationReq m_req; static unsigned m_req_made;
static KSI_AggregationResp m_resp;
static KSI_DataHash *sent_hash; static u64 sent_level; static int sent_has_level;

int KSI_AggregationReq_new(KSI_CTX *ctx, KSI_AggregationReq **t) { (void)ctx; m_req_made++; m_req.hash = NULL; m_req.level = NULL; *t = &m_req; return KSI_OK; }
int KSI_AggregationReq_setRequestHash(KSI_AggregationReq *t, KSI_DataHash *h) { t->hash = h; return KSI_OK; }
int KSI_AggregationReq_setRequestLevel(KSI_AggregationReq *t, KSI_Integer *l) { t->level = l; return KSI_OK; }
void KSI_AggregationReq_free(KSI_AggregationReq *t) { if (t != NULL) { t->freed++; KSI_DataHash_free(t->hash); KSI_Integer_free(t->level); } }
void KSI_AggregationResp_free(KSI_AggregationResp *t) { if (t != NULL) t->freed++; }

int KSI_sendAggregatorRequest(KSI_CTX *ctx, KSI_AggregationReq *request, KSI_RequestHandle **handle) {
	(void)ctx;
	if (request != NULL) { sent_hash = request->hash; sent_has_level = request->level != NULL; sent_level = KSI_Integer_getUInt64(request->level); }
	int s = gate(G_SEND, request == &m_req);
	if (s != KSI_OK) return s;
	*handle = &m_handle; return KSI_OK;
}
int KSI_RequestHandle_getAggregationResponse(const KSI_RequestHandle *handle, KSI_AggregationResp **resp) {
	int s = gate(G_GETRESP, handle == &m_handle);
	if (s != KSI_OK) return s;
	*resp = &m_resp; return KSI_OK;
}
int KSI_AggregationResp_verifyWithRequest(const KSI_AggregationResp *resp, const KSI_AggregationReq *req) { return gate(G_VWR, resp == &m_resp && req == &m_req); }
int KSI_SignatureBuilder_openFromAggregationResp(const KSI_AggregationResp *resp, KSI_SignatureBuilder **builder) {
	int s = gate(G_OPEN, resp == &m_resp);
	if (s != KSI_OK) return s;
	*builder = c07_open_builder(VERIF_ctx); return KSI_OK;
}

/* policy.c is not linked; the context initialiser is modelled field by field after policy.c:936 so that a code path
 * that builds a verification context of its own stays inside the model (and is then judged by the checks below) */
int KSI_VerificationContext_init(KSI_VerificationContext *context, KSI_CTX *ctx) {
	if (context == NULL || ctx == NULL) return KSI_INVALID_ARGUMENT;
	context->ctx = ctx; context->signature = NULL; context->extendingAllowed = 0; context->docAggrLevel = 0;
	context->documentHash = NULL; context->userPublication = NULL; context->userPublicationsFile = NULL; context->tempData = NULL;
	return KSI_OK;
}

#include "signature.c"

static const int GATES[] = {G_SEND, G_PERFORM, G_GETRESP, G_VWR, G_OPEN, G_CLOSE, G_VERIFY};
#define NG (sizeof(GATES) / sizeof(GATES[0]))

void harness(void) {
	VERIF_ctx_init();
	KSI_CTX *ctx = VERIF_ctx;
	int res;
	/* caller's hash: any algorithm id libksi knows with an HL-byte digest (representation invariant of KSI_DataHash) */
	u8 alg = ND(u8, hash_alg);
#if HL == 20
	ASSUME(alg == 0x00 || alg == 0x02);
#elif HL == 32
	ASSUME(alg == 0x01 || alg == 0x08 || alg == 0x0b);
#endif
	static KSI_DataHash root_obj; KSI_DataHash *root = &root_obj;
	root->ctx = ctx; root->ref = 1; root->imprint_length = 1 + HL; root->imprint[0] = alg;
	for (unsigned i = 0; i < HL; i++) root->imprint[1 + i] = ND(u8, root_digest);
	u64 level = ND(u64, root_level);
	static KSI_Policy pol; static KSI_VerificationContext vctx;
	KSI_VerificationContext *vc = ND_BOOL(has_vctx) ? &vctx : NULL;
	KSI_Signature *marker = (KSI_Signature *)&pol;   /* *signature must stay untouched on failure */
	KSI_Signature *out = marker;

	res = KSI_Signature_signAggregatedWithPolicy(ctx, root, level, &pol, vc, &out);

	int trusted = (alg != 0x00);                 /* SHA-1 is deprecated (2016-07-01); all others of these lengths are trusted */
	if (level > 0xff) {
		CHECK(res == KSI_INVALID_FORMAT && g_seq == 0 && m_req_made == 0 && out == marker, "C07.H2 a level above 0xff is refused before anything is built or sent");
		if (level == 0x100) WITNESS_POINT("level 256 refused");
	} else if (!trusted) {
		CHECK(res == KSI_UNTRUSTED_HASH_ALGORITHM && out == marker, "C07.H2 an input hash of a deprecated algorithm is refused");
		CHECK(g_seq == 0, "C07.H2 nothing is sent for an input hash of a deprecated algorithm");
#if HL == 20
		WITNESS_POINT("SHA-1 input hash refused before sending");
#endif
	} else {
		CHECK(g_calls[G_SEND] == 1 && g_args_ok[G_SEND], "C07.H2 exactly one request is sent");
		CHECK(sent_hash == root, "C07.H2 the request carries the caller's hash object unchanged");
		CHECK(level == 0 ? !sent_has_level : (sent_has_level && sent_level == level), "C07.H2 the request carries the caller's level (absent element = level 0)");
		CHECK(nothing_after_failure(GATES, NG), "C07.H2 no gate is reached after an earlier gate failed or was skipped");
		if (res == KSI_OK) {
			CHECK(gates_ok_in_order(GATES, NG), "C07.H2 success only after send, perform, getResponse, verifyWithRequest, open, close, verify all returned OK in this order on the same objects");
			CHECK(m_close_noverify == 1 && m_close_level == level, "C07.H2 the builder is closed unverified with the caller's level, verification follows separately");
			CHECK(m_verify_doc == root && m_verify_level == 0 && m_verify_policy == &pol && m_verify_ctx == vc, "C07.H2 the new signature is verified against the caller's hash with the caller's policy and context");
			CHECK(out == &m_sig_obj && m_sign == &m_sig_obj && SIG_ALIVE_AND_OWNED(), "C07.H2 the returned signature is the verified object and is alive");
#if HL == 32
			if (level == 0xff && alg == 0x0b) WITNESS_POINT("signed at level 255 with SM3 input hash");
#else
			if (level == 0xff && alg == 0x02) WITNESS_POINT("signed at level 255 with RIPEMD-160 input hash");
#endif
			if (level == 0 && vc == NULL) WITNESS_POINT("signed at level 0 with default context");
		} else {
			CHECK(out == marker, "C07.H2 no signature is returned together with an error");
			int failing = 0, match = 0;
			for (unsigned i = 0; i < NG; i++) if (g_calls[GATES[i]] == 1 && g_status[GATES[i]] != KSI_OK) { failing++; if (g_status[GATES[i]] == res) match = 1; }
			CHECK(failing == 1 && match, "C07.H2 the error returned is the status of the one gate that failed");
			CHECK(m_builder == NULL || SIG_RELEASED(), "C07.H2 a signature that was being built or was built but not verified is released");
			if (g_calls[G_VERIFY] == 1) WITNESS_POINT("final verification failed: signature destroyed, nothing returned");
			if (g_calls[G_VWR] == 1 && g_status[G_VWR] == KSI_REQUEST_ID_MISMATCH) WITNESS_POINT("request id mismatch stops before the builder");
		}
		CHECK(m_req.freed == 1 && m_handle_freed == g_calls[G_PERFORM] && m_resp.freed == (g_calls[G_GETRESP] == 1 && g_status[G_GETRESP] == KSI_OK ? 1 : 0)
			&& m_builder_freed == (m_builder != NULL ? 1 : 0), "C07.H2 request, handle, response and builder are released exactly once");
	}
	CHECK(root->ref == 1, "C07.H2 the caller's hash keeps exactly the caller's reference");
}
