/* C13 H-9: changing the cache size (KSI_AsyncService_setOption(KSI_ASYNC_OPT_REQUEST_CACHE_SIZE) ->
 * asyncClient_setOption) on an ARBITRARY invariant-satisfying client state.
 * Contract (net_async.h: "New value may not be less than the already set value"): a smaller size is refused with
 * KSI_INVALID_ARGUMENT and nothing changes; an equal or larger size is accepted, every cached handle keeps its
 * slot, the new slots are empty, counters, cursor and scan position are unchanged - so Inv holds for the new size.
 * NEW_N (new configured size) is concrete per instance (it is an allocation size). */
#define HN "C13.H9"
#include "verif.h"
#include "internal.h"
#include "ctx.h"
#include "verif_post.h"
#include "c13_model.h"
#include "net_async.c"
#include "c13_state.h"

#ifndef NEW_N
#define NEW_N 4
#endif

void harness(void) {
	VERIF_ctx_init();
	KSI_CTX *ctx = VERIF_ctx;
	struct c13_snap pre;
	KSI_AsyncClient *c = c13_mk_client(ctx, &pre);
	size_t got = 0;

	int res = asyncClient_setOption(c, KSI_ASYNC_OPT_REQUEST_CACHE_SIZE, (void *)(size_t)NEW_N);

	if (NEW_N < CACHE_S - 1) {
		CHECK(res == KSI_INVALID_ARGUMENT, HN " shrinking the cache is refused");
		CHECK(c->options[KSI_ASYNC_OPT_REQUEST_CACHE_SIZE] == CACHE_S, HN " refused resize leaves the size unchanged");
		c13_check_inv(c);
#if NEW_N < CACHE_S - 1
		WITNESS_POINT("shrink refused");
#endif
	} else {
		CHECK(res == KSI_OK, HN " growing (or keeping) the cache size succeeds");
		CHECK(c->options[KSI_ASYNC_OPT_REQUEST_CACHE_SIZE] == (size_t)NEW_N + 1 && c->reqCache != NULL, HN " new size installed (one reserved slot more than configured)");
		int ok = 1;
		for (size_t i = 0; i < (size_t)NEW_N + 1; i++) {
			if (i < CACHE_S) { if (c->reqCache[i] != pre.slot[i].h) ok = 0; }
			else if (c->reqCache[i] != NULL) ok = 0;
		}
		CHECK(ok, HN " every cached handle keeps its slot, new slots are empty");
		CHECK(c->reqCache[0] == NULL && c->tail >= 1 && c->tail < (size_t)NEW_N + 1 && c->requestCount < (size_t)NEW_N + 1, HN " reserved slot, scan position and cursor valid for the new size");
#if NEW_N > CACHE_S - 1
		if (pre.nocc == CACHE_S - 1) WITNESS_POINT("full cache grown");
#elif NEW_N == CACHE_S - 1
		if (pre.nocc >= 1) WITNESS_POINT("same size set again");
#endif
	}
	CHECK(c13_slots_unchanged(c, &pre, 0) && c13_conf_unchanged(c, &pre), HN " cached handles untouched by a resize");
	CHECK(c->pending == pre.pending && c->received == pre.received && c->tail == pre.tail && c->requestCount == pre.requestCount && c->requestCountOffset == pre.offset, HN " counters, cursor, generation and scan position unchanged by a resize");
	CHECK(asyncClient_getOption(c, KSI_ASYNC_OPT_REQUEST_CACHE_SIZE, &got) == KSI_OK && got == c->options[KSI_ASYNC_OPT_REQUEST_CACHE_SIZE] - 1, HN " option getter reports the configured size");
}
