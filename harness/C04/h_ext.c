/* C04 H-a (extending): the four rules that FETCH a calendar chain from the extender, i.e. receiveCalendarHashChain, with
 * the transport seam of env/ext_seam.c (send / perform / getExtendResponse: symbolic status each, typed KSI_ExtendResp reply).
 *   RULE 0  ExtendSignatureCalendarChainInputHashToHead          request [signing time, -)
 *   RULE 1  ExtendSignatureCalendarChainInputHashToSamePubTime   request [signing time, publication time of the signature's calendar chain]
 *   RULE 2  PublicationsFileExtendToPublication                  request [signing time, nearest publication of the file at/after it]
 *   RULE 3  UserProvidedPublicationExtendToPublication           request [signing time, user publication time]
 * Reference (verification_rule.h: "calendar hash chain extended to ... can be received"; property: unavailable / failed extension is
 * inconclusive, possibly with an error status, never OK and never FAIL):
 *   OK  iff  the request could be formed (start time known, start <= end), every transport step succeeded, the reply exists, its
 *            status is absent or 0 and its request id equals the id of the request; then the chain of the reply (and nothing else)
 *            is buffered in tempData for the comparison rules and a stale buffered chain is gone.
 *   otherwise NA: with KSI_OK and result.status = the failure for service / network failures, with the error status itself for
 *            out-of-memory / invalid-argument / buffer-overflow / unknown, and NO chain stays buffered.  (The property allows either form;
 *            WHICH statuses are handed back as error status is the library's own split - the tutorial's "internal errors such as invalid
 *            arguments, out of memory" - and is asserted as such.)
 * Shape: calendar chain present / aggregation-time element present, reply present / with status / with chain (1 link), file of
 * C04_NPUB records.  Symbolic: every status, extender status code, both request ids, all times. */
#include "verif.h"
#include "internal.h"
#include "verification_rule.h"
#include "ctx.h"
#include "hash_model.h"
#include "verif_post.h"
#include "types_base.c"
#include "sig_builder.h"
#ifndef RULE
#define RULE 0
#endif
#if RULE == 2
#define C04_WITH_PUBFILE 1
#endif
#define C04_WITH_EXT 1
#include "c04_builder.h"
/* secondary witness points are only compiled in the thorough tier (-DWITNESS_ALL): every witness costs a solver call plus a full trace */
#ifdef WITNESS_ALL
#define WITNESS_EXTRA(msg) WITNESS_POINT(msg)
#else
#define WITNESS_EXTRA(msg) ((void)0)
#endif
#ifndef REPLY_PRESENT
#define REPLY_PRESENT 1
#endif
#ifndef STALE_CHAIN
#define STALE_CHAIN 0
#endif

/* what the instance's shape allows (guards for witness points) */
#define START_KNOWN (!SB_HAS_CAL || SB_CAL_HAS_AGGRTIME)
#if RULE == 0
#define END_POSSIBLE 1
#elif RULE == 1
#define END_POSSIBLE SB_HAS_CAL
#elif RULE == 2
#define END_POSSIBLE (C04_NPUB > 0)
#else
#define END_POSSIBLE (C04_USERPUB == 1 || C04_USERPUB == 3)
#endif
#define REQ_POSSIBLE (START_KNOWN && END_POSSIBLE)

static int fatal(int s) { return s == KSI_OUT_OF_MEMORY || s == KSI_INVALID_ARGUMENT || s == KSI_BUFFER_OVERFLOW || s == KSI_UNKNOWN_ERROR; }

void harness(void) {
	VERIF_ctx_init();
	VERIF_hm_init(0);
	VERIF_ext_init();
	KSI_CTX *ctx = VERIF_ctx;
	sb_build(ctx);
	c04_build_userpub(ctx);
#if RULE == 2
	c04_build_pubfile(ctx);
#endif
	VERIF_ext.send_res = ND(int, send_res);
	VERIF_ext.perform_res = ND(int, perform_res);
	VERIF_ext.get_res = ND(int, get_res);
	VERIF_ext.req_id = ND(u64, req_id);
	VERIF_ext.req_id_obj = sb_mk_int(VERIF_ext.req_id);
#if REPLY_PRESENT
	VERIF_ext.resp = c04_build_extresp(ctx);
#else
	VERIF_ext.resp = NULL;
#endif
#if STALE_CHAIN
	{   /* a chain left over from an earlier rule */
		KSI_CalendarHashChain *old = (KSI_CalendarHashChain *)malloc(sizeof(KSI_CalendarHashChain));
		ASSUME(old != NULL);
		memset(old, 0, sizeof(*old)); old->ctx = ctx; old->ref = 1;
		sb_tmp.calendarChain = old;
	}
#endif
	KSI_CalendarHashChain *before = sb_tmp.calendarChain;

	KSI_RuleVerificationResult r;
	sb_result_init(&r);
	int res =
#if RULE == 0
		KSI_VerificationRule_ExtendSignatureCalendarChainInputHashToHead(&sb_vc, &r);
#elif RULE == 1
		KSI_VerificationRule_ExtendSignatureCalendarChainInputHashToSamePubTime(&sb_vc, &r);
#elif RULE == 2
		KSI_VerificationRule_PublicationsFileExtendToPublication(&sb_vc, &r);
#else
		KSI_VerificationRule_UserProvidedPublicationExtendToPublication(&sb_vc, &r);
#endif

	/* ---- reference: the request ---- */
	int have_start = SB_HAS_CAL ? SB_CAL_HAS_AGGRTIME : 1;
	u64 start = SB_HAS_CAL ? SB.cal.aggrTime : SB.ch[0].aggrTime;
	int have_end = 0, end_known = 1; u64 end = 0;
#if RULE == 1
	have_end = SB_HAS_CAL; end_known = SB_HAS_CAL; end = SB_HAS_CAL ? SB.cal.pubTime : 0;
#elif RULE == 2
	{
		u64 signing = SB_HAS_CAL ? (SB_CAL_HAS_AGGRTIME ? SB.cal.aggrTime : SB.cal.pubTime) : SB.ch[0].aggrTime;
		end_known = 0;
		for (unsigned i = 0; i < C04_NPUB; i++) if (C4.pf[i].time >= signing && (!end_known || C4.pf[i].time < end)) { end_known = 1; end = C4.pf[i].time; }
		have_end = end_known;
	}
#elif RULE == 3
	have_end = (C04_USERPUB == 1 || C04_USERPUB == 3); end_known = have_end; end = have_end ? C4.up.time : 0;
#endif
	int req_ok = end_known && have_start && (!have_end || start <= end);

	CHECK(r.resultCode != KSI_VER_RES_FAIL, "C04.Hext a fetching rule never reports FAIL");
	CHECK(res == KSI_OK || r.resultCode == KSI_VER_RES_NA, "C04.Hext an error status comes with NA");
	if (!req_ok) {
		CHECK(res != KSI_OK && r.resultCode == KSI_VER_RES_NA, "C04.Hext no request can be formed (start time unknown, after the end, or no end): error status and NA");
		CHECK(VERIF_ext.sends == 0, "C04.Hext nothing is sent when no request can be formed");
#if (RULE == 1 || RULE == 3) && REQ_POSSIBLE
		if (have_start && end_known) WITNESS_POINT("aggregation time after the publication time: refused");
#elif RULE != 0 || !START_KNOWN
		WITNESS_POINT("request cannot be formed");
#endif
	} else {
		CHECK(VERIF_ext.sends == 1 && VERIF_ext.req_has_start && VERIF_ext.req_start == start, "C04.Hext one request, starting at the signature's signing time");
		CHECK(VERIF_ext.req_has_end == have_end && (!have_end || VERIF_ext.req_end == end), "C04.Hext the request ends at the anchor's publication time (open end for extend-to-head)");
		/* ---- reference: the exchange ---- */
		int s = KSI_OK;          /* first failure */
		int service = 0;         /* the failure is the extender's own status code */
		if (VERIF_ext.send_res != KSI_OK) s = VERIF_ext.send_res;
		else if (VERIF_ext.perform_res != KSI_OK) s = VERIF_ext.perform_res;
		else if (VERIF_ext.get_res != KSI_OK) s = VERIF_ext.get_res;
#if !REPLY_PRESENT
		else s = KSI_INVALID_ARGUMENT;
#else
#if C04_EXT_HAS_STATUS
		else if (C4.ext.status != 0) service = 1;
#endif
#if C04_EXT_HAS_REQID
		else if (C4.ext.reqId != VERIF_ext.req_id) s = KSI_INVALID_ARGUMENT;
#else
		else s = KSI_INVALID_ARGUMENT;
#endif
#endif
		if (service) {
			CHECK(res == KSI_OK && r.resultCode == KSI_VER_RES_NA && r.status != KSI_OK, "C04.Hext a non-zero extender status is inconclusive (NA) and is recorded");
			CHECK(sb_tmp.calendarChain == NULL, "C04.Hext no chain is buffered after an extender error status");
			if (C4.ext.status == 0x0101) CHECK(r.status == KSI_SERVICE_INVALID_REQUEST, "C04.Hext extender status 0x101 is reported as invalid request");
#if REQ_POSSIBLE && REPLY_PRESENT && C04_EXT_HAS_STATUS
			if (C4.ext.status == 0x7fffffffffffffffULL) WITNESS_EXTRA("unknown extender status");
			if (C4.ext.status == 0x0104) WITNESS_POINT("extender refuses the time range");
#endif
		} else if (s != KSI_OK) {
			if (fatal(s)) CHECK(res == s && r.resultCode == KSI_VER_RES_NA, "C04.Hext a fatal failure is returned as error status with NA");
			else CHECK(res == KSI_OK && r.resultCode == KSI_VER_RES_NA && r.status == s, "C04.Hext a transport failure is inconclusive (NA) and is recorded");
			CHECK(sb_tmp.calendarChain == NULL, "C04.Hext no chain is buffered after a failed exchange");
#if REQ_POSSIBLE && REPLY_PRESENT && C04_EXT_HAS_REQID
			if (VERIF_ext.send_res == KSI_OK && VERIF_ext.perform_res == KSI_OK && VERIF_ext.get_res == KSI_OK) WITNESS_POINT("reply with another request id refused");
#endif
#if REQ_POSSIBLE && !REPLY_PRESENT
			if (VERIF_ext.send_res == KSI_OK && VERIF_ext.perform_res == KSI_NETWORK_ERROR) WITNESS_POINT("network error while receiving");
#elif REQ_POSSIBLE
			if (VERIF_ext.send_res == KSI_OK && VERIF_ext.perform_res == KSI_NETWORK_ERROR) WITNESS_EXTRA("network error while receiving");
#endif
		} else {
#if REPLY_PRESENT
			CHECK(res == KSI_OK && r.resultCode == KSI_VER_RES_OK && r.errorCode == KSI_VER_ERR_NONE, "C04.Hext a reply with good status and matching request id: OK");
			CHECK(sb_tmp.calendarChain == c04_ext_cal, "C04.Hext exactly the chain of the reply is buffered");
#if REQ_POSSIBLE
			WITNESS_POINT("chain received and buffered");
#endif
#endif
		}
		CHECK(VERIF_ext.handle_frees == (VERIF_ext.send_res == KSI_OK ? 1 : 0), "C04.Hext the request handle is released exactly once");
	}
#if STALE_CHAIN
	if (req_ok) CHECK(sb_tmp.calendarChain != before, "C04.Hext a chain buffered by an earlier rule is discarded");
#endif
}
