/* Context model with an "no error expected" switch: the unmodified env/ctx.c plus a wrapper around
 * KSI_ERR_push.  While VERIF_expect_no_error is set (a harness sets it during operations that its reference
 * model says must succeed), pushing an error status is (1) reported as a failed check and (2) ends that
 * path (assert-then-assume).  Purpose: libksi reports almost every failure with KSI_pushError before it
 * jumps to its cleanup label; cutting the error path at the push keeps CBMC from merging the error state
 * with the success state at every cleanup label, which otherwise turns every pointer written on the success
 * path into a guarded pointer (measured: a two-leaf tree with symbolic levels 20 s, a three-leaf tree
 * > 10 min without the switch).  Soundness: the path is only cut after the assertion, so an error that is
 * reachable while the switch is on makes the run fail; it is never silently dropped. */
#define KSI_ERR_push VERIF_ctx_ERR_push
#include "ctx.c"
#undef KSI_ERR_push

int VERIF_expect_no_error;

void KSI_ERR_push(KSI_CTX *ctx, int statusCode, long extErrorCode, const char *fileName, unsigned int lineNr, const char *message) {
	if (statusCode != KSI_OK && VERIF_expect_no_error) {
		__CPROVER_assert(0, "CHECK EXPECT no error is raised by an operation the reference model says must succeed");
		__CPROVER_assume(0);
	}
	VERIF_ctx_ERR_push(ctx, statusCode, extErrorCode, fileName, lineNr, message);
}
