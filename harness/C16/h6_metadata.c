/* C16 H-6: the library's OWN metadata serialiser (types.c KSI_MetaData_serializePayload, the callback the block signer's
 * metadata leaf processor calls): the payload of the metadata record it writes starts with the padding element
 * (TLV8, tag 0x1e, N and F flags, value 01 or 01 01) chosen so that the WHOLE payload has even length - the form the
 * internal verification (metadata padding rule) demands of every metadata sibling - followed by exactly the fields that
 * are set, each with its minimal encoding, in tag order.
 * Shape per instance: which optional fields exist and the ENCODED SIZE of each integer (RT_BYTES / SEQ_BYTES, 0 = absent);
 * the values are concrete representatives of their size class, the client id is a concrete 2-character string plus NUL
 * (the subject is the length / parity arithmetic, which depends on sizes only). Real types.c (text of this TU), tlv_element.c, fast_tlv.c, types_base.c. */
#include "verif.h"
#include "internal.h"
#include "ctx.h"
#include "verif_post.h"
#include "types.c"
#ifndef RT_BYTES
#define RT_BYTES 0
#endif
#ifndef SEQ_BYTES
#define SEQ_BYTES 0
#endif
#ifndef MACHINE
#define MACHINE 0
#endif
/* a concrete value needing exactly nbytes bytes (symbolic integer values make KSI_Integer_new's pool / heap choice and every
 * later KSI_Integer_free path dependent: 7.6 GB without an answer) */
#define SIZED(nbytes) ((u64)0x8102030405060708ULL >> (8 * (8 - (nbytes))))
void harness(void) {
	VERIF_ctx_init(); KSI_CTX *ctx = VERIF_ctx; int res;
	KSI_MetaData *md = NULL; KSI_Utf8String *cid = NULL, *mid = NULL; KSI_Integer *rt = NULL, *seq = NULL;
	res = KSI_MetaData_new(ctx, &md); ASSUME(res == KSI_OK);
	res = KSI_Utf8String_new(ctx, "ab", 3, &cid); ASSUME(res == KSI_OK);
	res = KSI_MetaData_setClientId(md, cid); ASSUME(res == KSI_OK);
#if MACHINE
	res = KSI_Utf8String_new(ctx, "m", 2, &mid); ASSUME(res == KSI_OK);
	res = KSI_MetaData_setMachineId(md, mid); ASSUME(res == KSI_OK);
#endif
	u64 seqv = 0, rtv = 0;
#if SEQ_BYTES
	seqv = SIZED(SEQ_BYTES);
	res = KSI_Integer_new(ctx, seqv, &seq); ASSUME(res == KSI_OK);
	res = KSI_MetaData_setSequenceNr(md, seq); ASSUME(res == KSI_OK);
#endif
#if RT_BYTES
	rtv = SIZED(RT_BYTES);
	res = KSI_Integer_new(ctx, rtv, &rt); ASSUME(res == KSI_OK);
	res = KSI_MetaData_setRequestTimeInMicros(md, rt); ASSUME(res == KSI_OK);
#endif
	static u8 out[64]; size_t len = 777;
	res = md->serializePayload(md, out, sizeof(out), &len);
	CHECK(res == KSI_OK, "C16.H6 the metadata payload is serialised");
	const size_t body = (2 + 3) + (MACHINE ? 2 + 2 : 0) + (SEQ_BYTES ? 2 + SEQ_BYTES : 0) + (RT_BYTES ? 2 + RT_BYTES : 0);
	const size_t pad = (body % 2 == 0) ? 2 : 1;       /* padding element = 2 header bytes + pad value bytes: total even */
	CHECK(len == 2 + pad + body && len % 2 == 0, "C16.H6 the metadata payload has even length: padding chosen over ALL fields that are set");
	CHECK(out[0] == (0x1e | 0x40 | 0x20) && out[1] == pad && out[2] == 0x01 && (pad == 1 || out[3] == 0x01), "C16.H6 the payload starts with the padding element (tag 0x1e, N and F, value 01 / 01 01)");
	size_t o = 2 + pad;
	CHECK(out[o] == 0x01 && out[o + 1] == 3 && out[o + 2] == 'a' && out[o + 3] == 'b' && out[o + 4] == 0, "C16.H6 client id follows the padding");
	o += 5;
#if MACHINE
	CHECK(out[o] == 0x02 && out[o + 1] == 2 && out[o + 2] == 'm' && out[o + 3] == 0, "C16.H6 machine id in tag order");
	o += 4;
#endif
#if SEQ_BYTES
	{ int ok = out[o] == 0x03 && out[o + 1] == SEQ_BYTES; for (unsigned k = 0; k < SEQ_BYTES; k++) if (out[o + 2 + k] != (u8)(seqv >> (8 * (SEQ_BYTES - 1 - k)))) ok = 0;
	  CHECK(ok, "C16.H6 sequence number with its minimal big-endian encoding"); o += 2 + SEQ_BYTES; }
#endif
#if RT_BYTES
	{ int ok = out[o] == 0x04 && out[o + 1] == RT_BYTES; for (unsigned k = 0; k < RT_BYTES; k++) if (out[o + 2 + k] != (u8)(rtv >> (8 * (RT_BYTES - 1 - k)))) ok = 0;
	  CHECK(ok, "C16.H6 request time with its minimal big-endian encoding"); o += 2 + RT_BYTES; }
#endif
	CHECK(o == len, "C16.H6 nothing else is written");
	WITNESS_POINT("metadata payload serialised");
	KSI_MetaData_free(md);
}
