/* Stub definitions of EVERY KSI_VerificationRule_* symbol that policy.c's rule tables reference.
 * Used by the fact-vector harnesses (C01 H-b, C02 H-5; reusable for C04/C05): the REAL tables and the REAL
 * Rule_verify of policy.c are executed, each leaf rule is replaced by "return the outcome the harness chose".
 *
 *   #include "rule_stubs.h"      (after the libksi headers, before #include "policy.c")
 *   vr_havoc_all();              every rule gets an arbitrary outcome: any status, any of OK/NA/FAIL, any code
 *   VR_SET(Name, res, rc, ec);   pin one rule's outcome
 *   VR_SEQ(Name)                 0 = the rule was never called, else 1-based position of its FIRST call
 *   VR_CALLS(Name)               number of calls
 *
 * One scalar per rule on purpose (an array of 68 structs is beyond CBMC's field-sensitivity limit). */
#ifndef VERIF_RULE_STUBS_H_
#define VERIF_RULE_STUBS_H_

#define VR_LIST(X) \
	X(AggregationChainHashAlgorithmVerification) \
	X(AggregationChainInputHashAlgorithmVerification) \
	X(AggregationChainInputHashVerification) \
	X(AggregationChainInputLevelVerification) \
	X(AggregationChainMetaDataVerification) \
	X(AggregationHashChainConsistency) \
	X(AggregationHashChainIndexConsistency) \
	X(AggregationHashChainIndexContinuation) \
	X(AggregationHashChainTimeConsistency) \
	X(CalendarAuthenticationRecordAggregationHash) \
	X(CalendarAuthenticationRecordAggregationTime) \
	X(CalendarAuthenticationRecordDoesNotExist) \
	X(CalendarAuthenticationRecordExistence) \
	X(CalendarAuthenticationRecordPresenceVerification) \
	X(CalendarAuthenticationRecordSignatureVerification) \
	X(CalendarChainHashAlgorithmObsoleteAtPubTime) \
	X(CalendarHashChainAggregationTime) \
	X(CalendarHashChainDoesNotExist) \
	X(CalendarHashChainExistence) \
	X(CalendarHashChainHashAlgorithmDeprecatedAtPubTime) \
	X(CalendarHashChainInputHashVerification) \
	X(CalendarHashChainPresenceVerification) \
	X(CalendarHashChainRegistrationTime) \
	X(CertificateExistence) \
	X(CertificateValidity) \
	X(DocumentHashDoesNotExist) \
	X(DocumentHashExistence) \
	X(DocumentHashVerification) \
	X(ExtendSignatureCalendarChainInputHashToHead) \
	X(ExtendSignatureCalendarChainInputHashToSamePubTime) \
	X(ExtendedSignatureCalendarChainAggregationTime) \
	X(ExtendedSignatureCalendarChainInputHash) \
	X(ExtendedSignatureCalendarChainRightLinksMatch) \
	X(ExtendedSignatureCalendarChainRootHash) \
	X(InputHashAlgorithmVerification) \
	X(PublicationsFileContainsSignaturePublication) \
	X(PublicationsFileContainsSuitablePublication) \
	X(PublicationsFileDoesNotContainSignaturePublication) \
	X(PublicationsFileExtendToPublication) \
	X(PublicationsFileExtendedCalendarChainHashAlgorithmDeprecatedAtPubTime) \
	X(PublicationsFileExtendedSignatureInputHash) \
	X(PublicationsFileExtendingPermittedVerification) \
	X(PublicationsFilePublicationHashMatchesExtenderResponse) \
	X(PublicationsFilePublicationTimeMatchesExtenderResponse) \
	X(PublicationsFileSignatureCalendarChainHashAlgorithmDeprecatedAtPubTime) \
	X(PublicationsFileSignaturePublicationVerification) \
	X(RequireNoUserProvidedPublication) \
	X(Rfc3161DoesNotExist) \
	X(Rfc3161Existence) \
	X(Rfc3161RecordHashAlgorithmVerification) \
	X(Rfc3161RecordOutputHashAlgorithmVerification) \
	X(SignatureDoesNotContainPublication) \
	X(SignaturePublicationRecordExistence) \
	X(SignaturePublicationRecordMissing) \
	X(SignaturePublicationRecordPublicationHash) \
	X(SignaturePublicationRecordPublicationTime) \
	X(UserProvidedPublicationCreationTimeVerification) \
	X(UserProvidedPublicationExistence) \
	X(UserProvidedPublicationExtendToPublication) \
	X(UserProvidedPublicationExtendedCalendarChainHashAlgorithmDeprecatedAtPubTime) \
	X(UserProvidedPublicationExtendedSignatureInputHash) \
	X(UserProvidedPublicationExtendingPermittedVerification) \
	X(UserProvidedPublicationHashMatchesExtendedResponse) \
	X(UserProvidedPublicationHashVerification) \
	X(UserProvidedPublicationSignatureCalendarChainHashAlgorithmDeprecatedAtPubTime) \
	X(UserProvidedPublicationTimeDoesNotSuit) \
	X(UserProvidedPublicationTimeMatchesExtendedResponse) \
	X(UserProvidedPublicationTimeVerification)

struct vr_out { int res; int rc; int ec; };
static unsigned vr_clock;

#define VR_DECL(n) static struct vr_out vr_out_##n; static unsigned vr_seq_##n; static unsigned vr_calls_##n; static const char vr_name_##n[] = #n;
VR_LIST(VR_DECL)
#undef VR_DECL

#define VR_SET(n, r, c, e) do { vr_out_##n.res = (r); vr_out_##n.rc = (c); vr_out_##n.ec = (e); } while (0)
#define VR_SEQ(n) (vr_seq_##n)
#define VR_CALLS(n) (vr_calls_##n)

/* the body every stub shares: what a rule does to the result object (see VERIFICATION_RESULT_* in
 * verification_rule.c: resultCode, errorCode and ruleName are always written) */
#define VR_DEF(n) \
int KSI_VerificationRule_##n(KSI_VerificationContext *info, KSI_RuleVerificationResult *result) { \
	(void)info; \
	vr_calls_##n++; \
	if (vr_seq_##n == 0) vr_seq_##n = ++vr_clock; \
	result->resultCode = (KSI_VerificationResultCode)vr_out_##n.rc; \
	result->errorCode = (KSI_VerificationErrorCode)vr_out_##n.ec; \
	result->ruleName = vr_name_##n; \
	return vr_out_##n.res; \
}
VR_LIST(VR_DEF)
#undef VR_DEF

/* arbitrary outcome for every rule: any status code, any of the three result codes, any error code */
static void vr_havoc_all(void) {
	vr_clock = 0;
#define VR_HAVOC(n) { int r_ = ND(int, vr_res); int c_ = ND(int, vr_rc); int e_ = ND(int, vr_ec); \
	ASSUME(c_ == KSI_VER_RES_OK || c_ == KSI_VER_RES_NA || c_ == KSI_VER_RES_FAIL); \
	VR_SET(n, r_, c_, e_); vr_seq_##n = 0; vr_calls_##n = 0; }
	VR_LIST(VR_HAVOC)
#undef VR_HAVOC
}

#endif
