/* C12 H-errpush: the error ring of the REAL base.c: KSI_ERR_push, KSI_ERR_clearErrors, KSI_ERR_getBaseErrorMessage,
 * KSI_ERR_toString (ksi_err_toPrinter + printer_buf_wrapper), with the real KSI_strncpy / KSI_vsnprintf
 * (compatibility.c) and the vsnprintf contract model (any int).
 * The context is set up as KSI_CTX_new does for the ring (base.c: errors_size = KSI_ERR_STACK_LEN, errors =
 * KSI_malloc(sizeof(KSI_ERR) * errors_size), errors_count = 0); the rest of KSI_CTX_new (trust store, network
 * providers, global init) is not executed.  errors_count then starts at START (concrete per instance: the ring
 * position is a shape; a separate instance leaves it symbolic) and NPUSH errors are pushed with concrete
 * non-OK status, symbolic line / external code and short symbolic file name and message (or NULL).
 * Checked: every push lands in slot (count mod ring size) with its fields and NUL-terminated strings, the count grows by
 * one per non-OK push, nothing outside the ring or the output buffer is touched, rendering terminates. */
#include "verif.h"
#include "internal.h"
#include "impl/ctx_impl.h"

#ifndef START
#define START 0
#endif
#ifndef NPUSH
#define NPUSH 2
#endif
#ifndef BUFSZ
#define BUFSZ 24
#endif
#define SL 3   /* length of the symbolic strings */


/* RING: number of ring entries: KSI_ERR_STACK_LEN = 16 as in KSI_CTX_new; some instances use a smaller ring (all ring
 * code reads the size from ctx->errors_size) to reach several wrap-arounds cheaply. */
#ifndef RING
#define RING KSI_ERR_STACK_LEN
#endif
static struct KSI_CTX_st C;
static KSI_ERR ring[RING];

void harness(void) {
	KSI_CTX *ctx = &C;
	memset(&C, 0, sizeof(C));
	C.errors_size = RING;
	C.errors = ring;   /* static array instead of KSI_malloc: CBMC then tracks each entry and each field separately */
#ifdef START_SYMBOLIC
	size_t start = ND(size_t, start);
#else
	const size_t start = (size_t)(START);
#endif
	C.errors_count = start;

	int st[NPUSH]; long ext[NPUSH]; unsigned ln[NPUSH]; char fn[NPUSH][SL + 1], msg[NPUSH][SL + 1]; _Bool nomsg[NPUSH];
	KSI_ERR_push(NULL, KSI_INVALID_ARGUMENT, 0, "f", 1, "m");            /* no context: ignored */
	KSI_ERR_push(ctx, KSI_OK, 0, "f", 1, "m");                           /* no error: ignored */
	CHECK(C.errors_count == start, "C12.errpush pushes without context or with KSI_OK are ignored");
	for (unsigned k = 0; k < NPUSH; k++) {
		st[k] = (k & 1) ? KSI_OUT_OF_MEMORY : KSI_INVALID_FORMAT;   /* concrete non-OK status: a symbolic one makes 'ignored or stored' and with it the ring position symbolic */
		ext[k] = ND(long, ext); ln[k] = ND(unsigned, line); nomsg[k] = ND_BOOL(nomsg);
		for (unsigned i = 0; i < SL; i++) { fn[k][i] = (char)ND(u8, fnch); msg[k][i] = (char)ND(u8, msgch); }
		fn[k][SL] = 0; msg[k][SL] = 0;
		KSI_ERR_push(ctx, st[k], ext[k], fn[k], ln[k], nomsg[k] ? NULL : msg[k]);
	}
	CHECK(C.errors_count == start + NPUSH, "C12.errpush every push increments the error count");
#ifndef START_SYMBOLIC
	for (unsigned k = 0; k < NPUSH; k++) if (k + RING >= NPUSH) {   /* entries not yet overwritten by a later push */
		const KSI_ERR *e = &C.errors[(start + k) % RING];
		CHECK(e->statusCode == st[k] && e->extErrorCode == ext[k] && e->lineNr == ln[k], "C12.errpush slot (count mod ring size) holds status, external code and line");
		int same = 1, term = 0;
		for (unsigned i = 0; i <= SL; i++) {
			char wm = nomsg[k] ? 0 : msg[k][i];
			if (!term && e->message[i] != wm) same = 0;
			if (wm == 0) term = 1;
		}
		CHECK(same, "C12.errpush slot holds the message up to its terminator (empty for NULL)");
		CHECK(e->message[sizeof(e->message) - 1] == 0 && e->fileName[sizeof(e->fileName) - 1] == 0, "C12.errpush strings in the slot are terminated");
	}
#endif
	/* rendering */
	char *buf = (char *)verif_buf_alloc(BUFSZ);
	for (unsigned i = 0; i < BUFSZ; i++) buf[i] = 0x55;
	char *r = KSI_ERR_toString(ctx, buf, BUFSZ);
	CHECK(r == buf, "C12.errpush KSI_ERR_toString returns the buffer");
	int nul = 0; for (unsigned i = 0; i < BUFSZ; i++) if (buf[i] == 0) nul = 1;
	CHECK(nul, "C12.errpush KSI_ERR_toString output is terminated inside the buffer");
	int e1 = -1, e2 = -1;
	char small[4] = {0x55, 0x55, 0x55, 0x55};
	int res = KSI_ERR_getBaseErrorMessage(ctx, small, sizeof(small), &e1, &e2);
	CHECK(res == KSI_OK && small[3] == 0, "C12.errpush KSI_ERR_getBaseErrorMessage fills and terminates the caller's buffer");
	KSI_ERR_clearErrors(ctx);
	CHECK(C.errors_count == 0, "C12.errpush clearErrors resets the count");
	r = KSI_ERR_toString(ctx, buf, BUFSZ);
	CHECK(r == buf, "C12.errpush KSI_ERR_toString of an empty ring returns the buffer");
	WITNESS_POINT("errors pushed and rendered");
#if !defined(START_SYMBOLIC) && NPUSH >= 2
	if (nomsg[0] && !nomsg[1] && msg[1][0] == 0) WITNESS_POINT("NULL and empty message stored");
#endif
	verif_buf_free((u8 *)buf, BUFSZ);
}
