/* C19 H-14e: KSI_PublicationsFile_serialize (publicationsfile.c, real, included) under allocation failure (c19.h conventions: the
 * FAULT_AT-th allocation of the faulted call fails; FAULT_AT concrete per instance, 0 = fault-free).
 * Real: KSI_PublicationsFile_serialize, publicationsFileTLV_getSignatureTLVLength, KSI_PublicationsFile_new / _free /
 * getSignedDataLength (publicationsfile.c), tlv.c (KSI_TLV_new, nested list, KSI_TLV_getRawValue -> encodeAsRaw ->
 * KSI_TLV_serializePayload, KSI_TLV_free), list.c, the typed destructors of types.c (only ever called with NULL here).
 * Model: KSI_TlvTemplate_construct (typed object -> TLV content is C10's subject and far too heavy here; same device as
 * h10_sig_surgery.c) builds the content of the 0x700 element through the REAL KSI_TLV_new / KSI_TLV_setRawValue /
 * KSI_TLV_appendNestedTlv - i.e. through KSI_malloc / KSI_calloc / KSI_new, so that faults reach it and it can fail half way:
 * a header element 0x701 (2 symbolic bytes) and the signature element 0x704 (3 symbolic bytes), the signature last.
 * The file object has a previous raw copy (HAS_RAW=1: 5 bytes, signedDataLength 2) or none (HAS_RAW=0).
 * Expected output: "KSIPUBLF" 87 01 00 02 h h 87 04 00 03 s s s  (21 bytes), signedDataLength = 21 - (4 + 3) = 14.
 * Decided by CBMC (and ASan / LeakSanitizer natively), for every k = 0 .. NALLOC + 1:
 *   - error or the fault-free result (the caller's buffer holds exactly the expected bytes, is the caller's own - distinct from
 *     the internal copy - and the internal copy / signed length agree with it);
 *   - on error both output arguments are untouched and the file object is CONSISTENT: (raw, raw_len, signedDataLength) is
 *     either the old triple, untouched, or the complete new triple (serialize refreshes the internal copy before it
 *     allocates the caller's copy: "refreshed but reported as failed" is an accepted intermediate state - it is the
 *     fault-free object state - and is reported by a witness); never a freed / half-written buffer;
 *   - the same call without fault succeeds with the fault-free result; the object is released, nothing leaks.
 *
 * MUTATIONS caught (scratch worktree, on top of the clone fix, each reverted afterwards):
 *   M10 serialize: previous internal copy not released                                   => leak (raw1_k0)
 *   M11 serialize: `tmp = NULL` dropped after the caller's copy was handed out            => double free / use after free (raw1_k0)
 *   (dropping the `tmp = NULL` after the INTERNAL copy took the buffer is an equivalent mutant: tmp is overwritten by the next malloc) */
#include "c19.h"
#include "tlv.h"
#include "tlv_template.h"
#include "impl/publicationsfile_impl.h"
#include "impl/ctx_impl.h"
#include "verif_post.h"

#ifndef HAS_RAW
#define HAS_RAW 1
#endif
#ifndef NALLOC
#define NALLOC 11
#endif
#define OUTLEN 21
#define SDL_NEW 14

static u8 hb[2], sb[3];
static int add_child(KSI_CTX *ctx, KSI_TLV *parent, unsigned tag, const u8 *v, size_t n) {
	KSI_TLV *c = NULL; int res;
	res = KSI_TLV_new(ctx, tag, 0, 0, &c); if (res != KSI_OK) return res;
	res = KSI_TLV_setRawValue(c, v, n); if (res != KSI_OK) { KSI_TLV_free(c); return res; }
	res = KSI_TLV_appendNestedTlv(parent, c); if (res != KSI_OK) { KSI_TLV_free(c); return res; }
	return KSI_OK;
}
int KSI_TlvTemplate_construct(KSI_CTX *ctx, KSI_TLV *tlv, const void *payload, const KSI_TlvTemplate *tmpl) {
	int res; (void)payload; (void)tmpl;
	res = add_child(ctx, tlv, 0x701, hb, 2); if (res != KSI_OK) return res;
	res = add_child(ctx, tlv, 0x704, sb, 3); if (res != KSI_OK) return res;
	return KSI_OK;
}
/* never reached in this scenario (parse / typed records are h14_pubfile_parse's subject) */
int KSI_TlvTemplate_extractGenerator(KSI_CTX *ctx, void *payload, void *generatorCtx, const KSI_TlvTemplate *tmpl, int (*generator)(void *, KSI_TLV **)) {
	(void)ctx; (void)payload; (void)generatorCtx; (void)tmpl; (void)generator; CHECK(0, "C19.H14e stub: nothing is parsed in this scenario"); return KSI_UNKNOWN_ERROR; }
#include "publicationsfile.c"

static const u8 magic[8] = {'K', 'S', 'I', 'P', 'U', 'B', 'L', 'F'};
static int is_expected(const u8 *p) {
	u8 e[OUTLEN] = {0, 0, 0, 0, 0, 0, 0, 0, 0x87, 0x01, 0x00, 0x02, hb[0], hb[1], 0x87, 0x04, 0x00, 0x03, sb[0], sb[1], sb[2]};
	int ok = 1;
	for (unsigned i = 0; i < 8; i++) e[i] = magic[i];
	for (unsigned i = 0; i < OUTLEN; i++) if (p[i] != e[i]) ok = 0;
	return ok;
}

void harness(void) {
	VERIF_ctx_init(); KSI_CTX *ctx = VERIF_ctx; int res;
	for (unsigned i = 0; i < 2; i++) hb[i] = ND(u8, header_byte);
	for (unsigned i = 0; i < 3; i++) sb[i] = ND(u8, signature_byte);
	KSI_PublicationsFile *pf = NULL;
	res = KSI_PublicationsFile_new(ctx, &pf); ASSUME(res == KSI_OK);
	u8 old[5]; unsigned char *oldraw = NULL;
#if HAS_RAW
	oldraw = KSI_malloc(5); ASSUME(oldraw != NULL);
	for (unsigned i = 0; i < 5; i++) { old[i] = ND(u8, old_byte); oldraw[i] = old[i]; }
	pf->raw = oldraw; pf->raw_len = 5; pf->signedDataLength = 2;
#else
	pf->signedDataLength = 0;
#endif
	const size_t old_len = pf->raw_len, old_sdl = pf->signedDataLength;

	static char sentinel_obj[4];
	char *const untouched = sentinel_obj;
	char *o1 = untouched, *o2 = untouched; size_t l1 = 777, l2 = 777;
	C19_ARM();
	res = KSI_PublicationsFile_serialize(ctx, pf, &o1, &l1);
	C19_DISARM();
	const unsigned allocs1 = VERIF_alloc_count;
	const int new_triple = (pf->raw != NULL && pf->raw != oldraw && pf->raw_len == OUTLEN && pf->signedDataLength == SDL_NEW && is_expected(pf->raw));
	C19_OUTCOME(res, o1 != untouched && o1 != NULL && l1 == OUTLEN && (unsigned char *)o1 != pf->raw && is_expected((const u8 *)o1) && new_triple);
	if (!VERIF_fault_hit) CHECK(allocs1 == NALLOC, "C19.H14e the fault-free call performs exactly NALLOC allocations (enumeration complete)");
	if (res != KSI_OK) {
		CHECK(o1 == untouched && l1 == 777, "C19.H14e a failed serialize leaves both output arguments untouched");
		int old_triple = (pf->raw == oldraw && pf->raw_len == old_len && pf->signedDataLength == old_sdl);
#if HAS_RAW
		if (old_triple) for (unsigned i = 0; i < 5; i++) if (pf->raw[i] != old[i]) old_triple = 0;
#endif
		CHECK(old_triple || new_triple, "C19.H14e after a failed serialize the file object is consistent: internal copy, its length and the signed length are all old or all new");
#if FAULT_AT == NALLOC      /* only the last allocation (the caller's copy) comes after the refresh */
		if (new_triple) WITNESS_POINT("failure after the internal copy was refreshed (non-atomic but consistent)");
#else
		CHECK(old_triple, "C19.H14e a failure before the last allocation leaves the file object untouched");
#endif
	}
	if (res != KSI_OK || o1 == untouched) o1 = NULL;

	/* ---- the same call without fault ---- */
	res = KSI_PublicationsFile_serialize(ctx, pf, &o2, &l2);
	size_t sdl = 0;
	CHECK(res == KSI_OK && o2 != untouched && o2 != NULL && o2 != o1 && l2 == OUTLEN && (unsigned char *)o2 != pf->raw && is_expected((const u8 *)o2)
		&& pf->raw != NULL && pf->raw_len == OUTLEN && is_expected(pf->raw) && KSI_PublicationsFile_getSignedDataLength(pf, &sdl) == KSI_OK && sdl == SDL_NEW,
		"C19.H14e serialize repeated without fault gives the fault-free result");
	if (res != KSI_OK || o2 == untouched) o2 = NULL;
	if (o1 != NULL) CHECK(is_expected((const u8 *)o1), "C19.H14e the caller's first buffer is unaffected by the second call");

	KSI_free(o1); KSI_free(o2);
	KSI_PublicationsFile_free(pf);
	WITNESS_POINT("serialize scenario finished");
#if FAULT_AT >= 1 && FAULT_AT <= NALLOC
	if (VERIF_fault_hit && o1 == NULL && o2 != NULL) WITNESS_POINT("fault was injected and the repeated call succeeded");
#elif FAULT_AT > NALLOC
	CHECK(!VERIF_fault_hit, "C19.H14e the enumeration of allocation indices is complete (no allocation beyond NALLOC)");
#endif
}
