/* C19 H-9: the baseTlv surgery of a signature under allocation failure (c19.h conventions: the FAULT_AT-th allocation
 * of the operation fails, FAULT_AT concrete per instance, 0 = fault-free).
 *   OP 0: KSI_Signature_replacePublicationRecord(sig, pubRec)                      (signature.c, real)
 *   OP 1: KSI_SignatureBuilder_applyCalendarHashChain(builder, newChain)            (signature_builder.c, real, included:
 *         replaceCalendarChain + removeCalAuthAndPublication)
 * Real: tlv.c, list.c, signature.c, hashchain.c (reference counting / free).  KSI_TlvTemplate_construct (typed object ->
 * TLV content; C10's subject and far too heavy here) is a MODEL that builds one child element through the real
 * KSI_TLV_new / KSI_TLV_appendNestedTlv, i.e. through KSI_malloc / KSI_calloc / KSI_new, so that faults reach it and it can
 * fail half way.  Signature: element 0x800 with the concrete children [0x801, 0x802, 0x805] (aggregation chain, calendar
 * chain, calendar authentication record), typed members to match.
 * Decided by CBMC (and by ASan / LeakSanitizer in the native replay):
 *   - the call reports an error or delivers the correct result;
 *   - after an error the signature is CONSISTENT and usable: its element still serialises, no half-built 0x802 / 0x803
 *     child is attached, every surviving child is the same object in the same order, the typed members agree with the
 *     children (OP 0 removes the old trust anchor before it allocates: "old anchor already gone" is an accepted
 *     intermediate state - it is exactly the fault-free result minus the new record - and is reported by a witness);
 *   - OP 1: after an error nothing at all has changed;
 *   - the same operation repeated without fault succeeds and gives the fault-free result;
 *   - no double free, no use after free, and - after the harness has released what the caller owns - no leak. */
#include "c19.h"
#include "tlv.h"
#include "tlv_template.h"
#include "hashchain.h"
#include "net.h"
#include "signature.h"
#include "impl/signature_impl.h"
#include "impl/signature_builder_impl.h"
#include "impl/hashchain_impl.h"
#include "impl/publicationsfile_impl.h"
#include "verif_post.h"

#ifndef OP
#define OP 0
#endif
#define NCH 3
#define NALLOC 5      /* allocations of either operation in this scenario: FAULT_AT 1..5 hit, 6 proves that there is no sixth */
static const unsigned tags[NCH] = {0x801, 0x802, 0x805};

/* model of KSI_TlvTemplate_construct: one child element, allocated through the library allocator */
int KSI_TlvTemplate_construct(KSI_CTX *ctx, KSI_TLV *tlv, const void *payload, const KSI_TlvTemplate *tmpl) {
	KSI_TLV *c = NULL; int res; (void)payload; (void)tmpl;
	res = KSI_TLV_new(ctx, 0x10, 0, 0, &c); if (res != KSI_OK) return res;
	res = KSI_TLV_appendNestedTlv(tlv, c); if (res != KSI_OK) { KSI_TLV_free(c); return res; }
	return KSI_OK;
}
/* publication record: reference counted heap object (publicationsfile.c is not linked) */
void KSI_PublicationRecord_free(KSI_PublicationRecord *p) { if (p != NULL && --p->ref == 0) free(p); }
void KSI_PublicationData_free(KSI_PublicationData *p) { __CPROVER_assert(p == NULL, "CHECK C19.H9 unlinked destructor KSI_PublicationData_free only called with NULL"); }
void KSI_PKISignedData_free(KSI_PKISignedData *p) { __CPROVER_assert(p == NULL, "CHECK C19.H9 unlinked destructor KSI_PKISignedData_free only called with NULL"); }
void KSI_PublicationsFile_free(KSI_PublicationsFile *p) { __CPROVER_assert(p == NULL, "CHECK C19.H9 unlinked destructor KSI_PublicationsFile_free only called with NULL"); }

#include "signature_builder.c"

static unsigned count_tag(KSI_LIST(KSI_TLV) *l, unsigned tag) {
	unsigned n = 0;
	for (size_t i = 0; i < 6; i++) { KSI_TLV *e = NULL; if (i < KSI_TLVList_length(l) && KSI_TLVList_elementAt(l, i, &e) == KSI_OK && KSI_TLV_getTag(e) == tag) n++; }
	return n;
}

void harness(void) {
	VERIF_ctx_init(); KSI_CTX *ctx = VERIF_ctx;
	int res;
	/* ---- set-up (no faults) ---- */
	KSI_SignatureBuilder *b = NULL;
	res = KSI_SignatureBuilder_open(ctx, &b); ASSUME(res == KSI_OK);
	KSI_Signature *sig = b->sig;
	KSI_TLV *base = NULL, *orig[NCH];
	res = KSI_TLV_new(ctx, 0x800, 0, 0, &base); ASSUME(res == KSI_OK);
	for (unsigned i = 0; i < NCH; i++) {
		res = KSI_TLV_new(ctx, tags[i], 0, 0, &orig[i]); ASSUME(res == KSI_OK);
		res = KSI_TLV_appendNestedTlv(base, orig[i]); ASSUME(res == KSI_OK);
	}
	sig->baseTlv = base;
	KSI_CalendarHashChain *oldcal = NULL, *newcal = NULL;
	res = KSI_CalendarHashChain_new(ctx, &oldcal); ASSUME(res == KSI_OK);
	sig->calendarChain = oldcal;
	KSI_CalendarAuthRec *ar = malloc(sizeof(*ar)); ASSUME(ar != NULL);
	ar->ctx = ctx; ar->ref = 1; ar->pubData = NULL; ar->signatureData = NULL;
	sig->calendarAuthRec = ar;
	KSI_PublicationRecord *pub = malloc(sizeof(*pub)); ASSUME(pub != NULL);
	memset(pub, 0, sizeof(*pub)); pub->ctx = ctx; pub->ref = 1;
	res = KSI_CalendarHashChain_new(ctx, &newcal); ASSUME(res == KSI_OK);
	KSI_LIST(KSI_TLV) *lst = NULL;
	res = KSI_TLV_getNestedList(base, &lst); ASSUME(res == KSI_OK);

	/* ---- the operation with the FAULT_AT-th allocation failing ---- */
	C19_ARM();
#if OP == 0
	res = KSI_Signature_replacePublicationRecord(sig, pub);
#else
	res = KSI_SignatureBuilder_applyCalendarHashChain(b, newcal);
#endif
	C19_DISARM();

	size_t len = KSI_TLVList_length(lst);
	KSI_TLV *e0 = NULL, *e1 = NULL, *e2 = NULL;
	KSI_TLVList_elementAt(lst, 0, &e0); KSI_TLVList_elementAt(lst, 1, &e1);
	if (len > 2) KSI_TLVList_elementAt(lst, 2, &e2);
#if OP == 0
	/* fault-free result: [0x801, 0x802, new 0x803], auth record gone, publication = pub */
	int final_ok = len == 3 && e0 == orig[0] && e1 == orig[1] && e2 != NULL && e2 != orig[2] && KSI_TLV_getTag(e2) == 0x803
		&& sig->calendarAuthRec == NULL && sig->publication == pub && sig->calendarChain == oldcal;
	C19_OUTCOME(res, final_ok);
	if (res != KSI_OK) {
		int untouched = len == 3 && e0 == orig[0] && e1 == orig[1] && e2 == orig[2] && sig->calendarAuthRec == ar && sig->publication == NULL;
		int anchor_gone = len == 2 && e0 == orig[0] && e1 == orig[1] && sig->calendarAuthRec == NULL && sig->publication == NULL;
		CHECK(untouched || anchor_gone, "C19.H9 after a failed replacePublicationRecord the signature is consistent: untouched, or old anchor removed and nothing half-built attached");
		CHECK(count_tag(lst, 0x803) == 0 && pub->ref == 1, "C19.H9 a failed replacePublicationRecord attaches no 0x803 element and does not keep the caller's record");
#if FAULT_AT >= 1 && FAULT_AT <= NALLOC
		if (anchor_gone) WITNESS_POINT("failure after the old anchor was removed (non-atomic but consistent)");
#endif
	}
#else
	/* fault-free result: [0x801, new 0x802], auth record gone, chain = newcal */
	int final_ok = len == 2 && e0 == orig[0] && e1 != NULL && e1 != orig[1] && KSI_TLV_getTag(e1) == 0x802
		&& sig->calendarAuthRec == NULL && sig->publication == NULL && sig->calendarChain == newcal && newcal->ref == 2;
	C19_OUTCOME(res, final_ok);
	if (res != KSI_OK) {
		CHECK(len == 3 && e0 == orig[0] && e1 == orig[1] && e2 == orig[2] && sig->calendarChain == oldcal && sig->calendarAuthRec == ar && newcal->ref == 1,
			"C19.H9 after a failed applyCalendarHashChain nothing has changed");
	}
#endif
	/* the signature must remain usable: its element serialises (faults disarmed) */
	{
		u8 out[64]; size_t ol = 0;
		int r2 = KSI_TLV_serialize_ex(base, out, sizeof(out), &ol);
		CHECK(r2 == KSI_OK && ol >= 4 && out[0] == 0x88 && out[1] == 0x00 && ((size_t)out[2] << 8 | out[3]) == ol - 4, "C19.H9 after the (failed) call the signature element still serialises to a well-formed element");
	}
	/* repeat without fault */
	if (res != KSI_OK) {
#if OP == 0
		res = KSI_Signature_replacePublicationRecord(sig, pub);
#else
		res = KSI_SignatureBuilder_applyCalendarHashChain(b, newcal);
#endif
		len = KSI_TLVList_length(lst); e0 = e1 = e2 = NULL;
		KSI_TLVList_elementAt(lst, 0, &e0); KSI_TLVList_elementAt(lst, 1, &e1); if (len > 2) KSI_TLVList_elementAt(lst, 2, &e2);
#if OP == 0
		CHECK(res == KSI_OK && len == 3 && e0 == orig[0] && e1 == orig[1] && e2 != NULL && KSI_TLV_getTag(e2) == 0x803 && count_tag(lst, 0x805) == 0
			&& sig->calendarAuthRec == NULL && sig->publication == pub, "C19.H9 replacePublicationRecord repeated without fault gives the fault-free result");
#else
		CHECK(res == KSI_OK && len == 2 && e0 == orig[0] && e1 != NULL && KSI_TLV_getTag(e1) == 0x802 && sig->calendarChain == newcal && sig->calendarAuthRec == NULL,
			"C19.H9 applyCalendarHashChain repeated without fault gives the fault-free result");
#endif
#if FAULT_AT >= 1 && FAULT_AT <= NALLOC
		WITNESS_POINT("operation repeated after a fault");
#endif
	}
	/* release what the caller owns: the builder (with the signature and everything attached to it) and its own references */
	KSI_SignatureBuilder_free(b);
	KSI_CalendarHashChain_free(newcal);
#if OP == 1
	(void)pub; free(pub);
#endif
	WITNESS_POINT("surgery scenario finished");
#if FAULT_AT >= 1 && FAULT_AT <= NALLOC
	if (VERIF_fault_hit) WITNESS_POINT("fault was injected");
#elif FAULT_AT > NALLOC
	CHECK(!VERIF_fault_hit, "C19.H9 the enumeration of allocation indices is complete (no allocation beyond NALLOC)");
#endif
}
