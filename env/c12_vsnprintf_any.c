/* C12: the C library's vsnprintf replaced by its contract with an arbitrary result, so that the callers'
 * buffer arithmetic (KSI_vsnprintf / KSI_snprintf in the REAL compatibility.c and everything built on them)
 * is checked for every possible return value:
 *   returns any int (negative = output error, otherwise the length the full text would have had);
 *   when n > 0 the output occupies s[0 .. end] with end = min(ret, n-1) and s[end] = NUL; on a negative result
 *   the contents are unspecified by C99 - modelled as the largest permitted extent (end = n-1), so that a caller
 *   passing a too large n is caught by the bounds check on s[n-1].  Only the terminator is actually stored:
 *   the characters before it are irrelevant to the callers (they never read them back) and every one of them
 *   lies below s[end], so storing them would add no bounds information (it made the renderers' queries 50x slower);
 *   when n == 0 nothing is written.
 * The format string and the arguments are ignored (the rendered text is not the subject).
 * n must not exceed C12_VSN_CAP (asserted): the harnesses use small buffers.
 * Under -DREPLAY the very same function is linked in place of the libc one and fed the solver's values. */
#include "verif.h"
#include <stdarg.h>
#ifndef C12_VSN_CAP
#define C12_VSN_CAP 72
#endif
unsigned VERIF_vsn_calls;
int vsnprintf(char *s, size_t n, const char *fmt, va_list ap) {
	(void)fmt; (void)ap;
	int ret = ND(int, vsn_ret);
	VERIF_vsn_calls++;
	if (n > 0) {
#ifndef REPLAY
		__CPROVER_assert(n <= C12_VSN_CAP, "vsnprintf model: n within the modelled bound");
#endif
		size_t end = (ret >= 0 && (size_t)ret < n) ? (size_t)ret : n - 1;
		s[end] = 0;
	}
	return ret;
}
