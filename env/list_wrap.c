/* The real list.c plus direct-call shims.  Each shim proves (assert) that the function
 * pointer stored in the list object is the static function it calls. */
#include "list.c"
#ifdef REPLAY
#include <assert.h>
#define LW_ASSERT(c) assert(c)
#else
#define LW_ASSERT(c) __CPROVER_assert((c), "DEVIRT list function pointer is the list.c implementation")
#endif
int VERIF_List_append(KSI_List *l, void *o) { if (l == NULL) return KSI_INVALID_ARGUMENT; LW_ASSERT(l->append == appendElement); return appendElement(l, o); }
int VERIF_List_removeElement(KSI_List *l, size_t pos, void **o) { if (l == NULL) return KSI_INVALID_ARGUMENT; LW_ASSERT(l->removeElement == removeElement); return removeElement(l, pos, o); }
int VERIF_List_indexOf(KSI_List *l, void *o, size_t **i) { if (l == NULL) return KSI_INVALID_ARGUMENT; LW_ASSERT(l->indexOf == indexOf); return indexOf(l, o, i); }
int VERIF_List_insertAt(KSI_List *l, size_t pos, void *o) { if (l == NULL) return KSI_INVALID_ARGUMENT; LW_ASSERT(l->insertAt == insertElementAt); return insertElementAt(l, pos, o); }
int VERIF_List_replaceAt(KSI_List *l, size_t pos, void *o) { if (l == NULL) return KSI_INVALID_ARGUMENT; LW_ASSERT(l->replaceAt == replaceElementAt); return replaceElementAt(l, pos, o); }
int VERIF_List_elementAt(KSI_List *l, size_t pos, void **o) { if (l == NULL || o == NULL) return KSI_INVALID_ARGUMENT; LW_ASSERT(l->elementAt == elementAt); return elementAt(l, pos, o); }
size_t VERIF_List_length(KSI_List *l) { if (l == NULL) return 0; LW_ASSERT(l->length == length); return length(l); }
int VERIF_List_find(KSI_List *l, void *o, int *found, size_t *pos) { if (l == NULL || found == NULL || pos == NULL) return KSI_INVALID_ARGUMENT; LW_ASSERT(l->find == find); return find(l, o, found, pos); }
int VERIF_List_sort(KSI_List *l, int (*cmp)(const void **, const void **)) { if (l == NULL) return KSI_INVALID_ARGUMENT; return KSI_List_sort(l, cmp); }
int VERIF_List_foldl(KSI_List *l, void *foldCtx, int (*fn)(void *, void *)) {
	int res; size_t i; void *el;
	if (l == NULL || fn == NULL) return KSI_INVALID_ARGUMENT;
	for (i = 0; i < VERIF_List_length(l); i++) {
		res = VERIF_List_elementAt(l, i, &el); if (res != KSI_OK) return res;
		res = fn(el, foldCtx); if (res != KSI_OK) return res;
	}
	return KSI_OK;
}
