/* C04 H-a (deprecated algorithms): the five rules that make a publication / key based verdict inconclusive when the calendar chain
 * (the signature's, or the one obtained from the extender) was built with a hash algorithm that was deprecated at its publication time.
 * Reference (verification_rule.h: "any of the calendar hash chain aggregation hash algorithms (derived from the right link) were deprecated
 * at the publication time"): the aggregation algorithm of a calendar step is taken from the sibling of a LEFT link (sibling on the right, C03 H-2);
 *   NA (without error status)  iff  some left link's sibling imprint uses an algorithm whose status at the chain's publication time is
 *                                   deprecated or obsolete;  OK otherwise;  never FAIL;  no chain -> error status and NA.
 * The status function itself (KSI_checkHashAlgorithmAt over hash.c's table) is used as given - its dates are C01's subject; what is checked
 * here is WHICH links and WHICH time the rules inspect.
 * Shape: 1..3 links, direction pattern and sibling algorithms (SHA-1 / SHA2-256 / RIPEMD-160) concrete; publication time symbolic. */
#include "verif.h"
#include "internal.h"
#include "verification_rule.h"
#include "ctx.h"
#include "hash_model.h"
#include "verif_post.h"
#include "types_base.c"
#include "sig_builder.h"
#ifndef ON_EXT
#define ON_EXT 0         /* 0: rules on the signature's calendar chain, 1 / 2: rule of the user publication / publications file policy on the buffered extender chain */
#endif
#if ON_EXT == 2
#define C04_WITH_PUBFILE 1
#endif
#define C04_WITH_EXT 1
#include "c04_builder.h"
#ifndef BUFFERED
#define BUFFERED 1
#endif

#define IS(res_, r_, rc_, ec_) ((res_) == KSI_OK && (r_).resultCode == (rc_) && (r_).errorCode == (ec_))
#define IS_ERR(res_, r_) ((res_) != KSI_OK && (r_).resultCode == KSI_VER_RES_NA)

void harness(void) {
	VERIF_ctx_init();
	VERIF_hm_init(0);
	KSI_CTX *ctx = VERIF_ctx;
	sb_build(ctx);
	c04_build_userpub(ctx);
	KSI_RuleVerificationResult r;
	int res;
	int depr = 0;
#if !ON_EXT
#if SB_HAS_CAL
	for (unsigned l = 0; l < SB_CAL_NLINKS; l++) { sb_cal_link[l]->isLeft = ((SIG_DIRS) >> l) & 1; SB.cal.link[l].isLeft = (((SIG_DIRS) >> l) & 1) != 0; }
	for (unsigned l = 0; l < SB_CAL_NLINKS; l++) if (SB.cal.link[l].isLeft) {
		int st = KSI_checkHashAlgorithmAt(SB.cal.link[l].sib.imp[0], (time_t)SB.cal.pubTime);
		if (st == KSI_HASH_ALGORITHM_DEPRECATED || st == KSI_HASH_ALGORITHM_OBSOLETE) depr = 1;
	}
#endif
#define SIGRULE(rule) \
	sb_result_init(&r); res = KSI_VerificationRule_##rule(&sb_vc, &r); \
	if (!SB_HAS_CAL) CHECK(IS_ERR(res, r), "C04.Hdepr " #rule " without calendar chain: error status and NA"); \
	else if (depr) CHECK(res == KSI_OK && r.resultCode == KSI_VER_RES_NA, "C04.Hdepr " #rule ": a deprecated algorithm in a left link at publication time is inconclusive (NA)"); \
	else CHECK(IS(res, r, KSI_VER_RES_OK, KSI_VER_ERR_NONE), "C04.Hdepr " #rule ": no deprecated algorithm in the left links: OK")
	SIGRULE(CalendarHashChainHashAlgorithmDeprecatedAtPubTime);
	SIGRULE(PublicationsFileSignatureCalendarChainHashAlgorithmDeprecatedAtPubTime);
	SIGRULE(UserProvidedPublicationSignatureCalendarChainHashAlgorithmDeprecatedAtPubTime);
#if SB_HAS_CAL
#if HAS_SHA1_LEFT
	if (depr) WITNESS_POINT("signature chain with a deprecated algorithm");
	if (!depr) WITNESS_POINT("SHA-1 left link before the deprecation date");
#else
	if (!depr) WITNESS_POINT("signature chain without deprecated algorithm");
#endif
#else
	WITNESS_POINT("no calendar chain");
#endif
#else
#if BUFFERED
	sb_tmp.calendarChain = c04_mk_extcal(ctx, &C4.ext.cal);
	for (unsigned l = 0; l < C04_EXT_NLINKS; l++) if (C4.ext.cal.link[l].isLeft) {
		int st = KSI_checkHashAlgorithmAt(C4.ext.cal.link[l].sib.imp[0], (time_t)C4.ext.cal.pubTime);
		if (st == KSI_HASH_ALGORITHM_DEPRECATED || st == KSI_HASH_ALGORITHM_OBSOLETE) depr = 1;
	}
#endif
	sb_result_init(&r);
#if ON_EXT == 2
	c04_build_pubfile(ctx);
	int suitable = 0;
	for (unsigned i = 0; i < C04_NPUB; i++) if (C4.pf[i].time >= SB.ch[0].aggrTime) suitable = 1;
	res = KSI_VerificationRule_PublicationsFileExtendedCalendarChainHashAlgorithmDeprecatedAtPubTime(&sb_vc, &r);
	if (!suitable) { CHECK(IS_ERR(res, r), "C04.Hdepr publications file variant without suitable publication: error status and NA"); } else
#else
	res = KSI_VerificationRule_UserProvidedPublicationExtendedCalendarChainHashAlgorithmDeprecatedAtPubTime(&sb_vc, &r);
#endif
	if (!BUFFERED) CHECK(IS_ERR(res, r), "C04.Hdepr extended-chain rule without buffered chain: error status and NA");
	else if (depr) CHECK(res == KSI_OK && r.resultCode == KSI_VER_RES_NA, "C04.Hdepr extender chain with a deprecated algorithm in a left link at publication time is inconclusive (NA)");
	else CHECK(IS(res, r, KSI_VER_RES_OK, KSI_VER_ERR_NONE), "C04.Hdepr extender chain without deprecated algorithm: OK");
#if BUFFERED
#if HAS_SHA1_LEFT
	if (depr) WITNESS_POINT("extender chain with a deprecated algorithm");
	if (!depr) WITNESS_POINT("extender chain: SHA-1 left link before the deprecation date");
#else
	if (!depr) WITNESS_POINT("extender chain without deprecated algorithm");
#endif
#else
	WITNESS_POINT("no buffered chain");
#endif
#endif
}
