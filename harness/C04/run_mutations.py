#!/usr/bin/env python3
"""Mutation sanity check of the C04 harnesses.

  python3 harness/C04/run_mutations.py [--only ID[,ID]] [--jobs N]

Creates a scratch worktree of /repo under /tmp (engine/mkscratch.sh), applies one mutation at a time (exact, unique
string replacement in one source file), runs the named harness instance(s) against it with VERIF_REPO and records
whether the harness reports the mutation (status other than ok / a failing CHECK).  The worktree is removed at the end.
/repo itself is never touched.  Results are printed as a markdown table (copied into MUTATIONS.md)."""
import argparse, json, os, re, subprocess, sys, time

VERIF = os.path.dirname(os.path.dirname(os.path.dirname(os.path.abspath(__file__))))
SCRATCH = "/tmp/c04-mut-%d" % os.getpid()

# id, file, old, new, harness instances (prefixes for --only), description
M = []
def mut(i, f, old, new, only, what):
    M.append({"id": i, "file": f, "old": old, "new": new, "only": only, "what": what})

P = "src/ksi/policy.c"
V = "src/ksi/verification_rule.c"

# ---- rule tables (H-b) ----
mut("T1", P, "\t{KSI_RULE_TYPE_BASIC, KSI_VerificationRule_UserProvidedPublicationHashVerification},\n", "",
    "hb_anchor.user,hb_anchor.general", "user-publication policy compares publication time but not hash (rule dropped from suitablePubExist)")
mut("T2", P, "\t{KSI_RULE_TYPE_BASIC, KSI_VerificationRule_PublicationsFileExtendingPermittedVerification},\n", "",
    "hb_anchor.pubfile", "extendingAllowed test dropped from the publications-file policy")
mut("T3", P, "\t{KSI_RULE_TYPE_COMPOSITE_OR, publicationsFileBasedRules},\n\t{KSI_RULE_TYPE_COMPOSITE_OR, keyBasedRules},\n",
    "\t{KSI_RULE_TYPE_COMPOSITE_OR, keyBasedRules},\n\t{KSI_RULE_TYPE_COMPOSITE_OR, publicationsFileBasedRules},\n",
    "hb_anchor.general", "general policy tries key-based before publications-file-based")
mut("T4", P, "\t{KSI_RULE_TYPE_BASIC, KSI_VerificationRule_RequireNoUserProvidedPublication },\n", "",
    "hb_anchor.general", "general policy falls through to other anchors although a user publication was supplied")
mut("T5", P, "static const KSI_Rule keyBasedRules[] = {\n\t{KSI_RULE_TYPE_COMPOSITE_AND, internalRules},", "static const KSI_Rule keyBasedRules[] = {\n\t{KSI_RULE_TYPE_COMPOSITE_OR, internalRules},",
    "hb_anchor.key", "key-based policy: internal verification OR-ed instead of AND-ed (OK without anchor)")
mut("T6", P, "\t{KSI_RULE_TYPE_BASIC, KSI_VerificationRule_ExtendedSignatureCalendarChainInputHash},\n\t{KSI_RULE_TYPE_BASIC, KSI_VerificationRule_ExtendedSignatureCalendarChainAggregationTime},\n\t{KSI_RULE_TYPE_BASIC, NULL}\n};\n\nstatic const KSI_Rule calendarHashChainRule_cal",
    "\t{KSI_RULE_TYPE_BASIC, KSI_VerificationRule_ExtendedSignatureCalendarChainInputHash},\n\t{KSI_RULE_TYPE_BASIC, NULL}\n};\n\nstatic const KSI_Rule calendarHashChainRule_cal",
    "hb_anchor.cal", "calendar-based policy: aggregation time of the extended chain not compared (CAL-03 rule dropped from extendToCalendarChainRule)")
mut("T7", P, "static const KSI_Rule publicationRecordRule_pubFile[] = {\n\t{KSI_RULE_TYPE_COMPOSITE_OR, sigPubRecExist_pubFile},\n\t{KSI_RULE_TYPE_COMPOSITE_OR, sigPubRecMissing_pubFile},\n",
    "static const KSI_Rule publicationRecordRule_pubFile[] = {\n\t{KSI_RULE_TYPE_COMPOSITE_OR, sigPubRecExist_pubFile},\n\t{KSI_RULE_TYPE_COMPOSITE_OR, sigPubRecMissing_pubFile},\n\t{KSI_RULE_TYPE_COMPOSITE_OR, emptyRules},\n",
    "hb_anchor.pubfile,hb_anchor.general", "always-OK shortcut appended as a last OR branch of the publications-file policy")
mut("T8", P, "\t{KSI_RULE_TYPE_BASIC, KSI_VerificationRule_CertificateValidity},\n", "",
    "hb_anchor.key,hb_anchor.general", "KEY-03 rule removed from the key-based table")
mut("T9", P, "static const KSI_Rule CalendarChainRightLinksVerificationRule[] = {\n\t{KSI_RULE_TYPE_BASIC, KSI_VerificationRule_SignatureDoesNotContainPublication},",
    "static const KSI_Rule CalendarChainRightLinksVerificationRule[] = {\n\t{KSI_RULE_TYPE_BASIC, KSI_VerificationRule_SignaturePublicationRecordExistence},",
    "hb_anchor.cal", "calendar-based: right-link comparison guarded by the wrong presence probe")
mut("T10", P, "static const KSI_Rule userProvidedPublicationBasedRules[] = {\n\t{KSI_RULE_TYPE_COMPOSITE_AND, internalRules},\n", "static const KSI_Rule userProvidedPublicationBasedRules[] = {\n",
    "hb_anchor.user", "user-publication policy without internal verification")
mut("T11", P, "\t{KSI_RULE_TYPE_BASIC, KSI_VerificationRule_UserProvidedPublicationTimeMatchesExtendedResponse},\n", "",
    "hb_anchor.user", "PUB-02 rule dropped from extendToUserPublication")
mut("T12", P, "static const KSI_Rule suitablePubMissing_pubFile[] = {\n\t{KSI_RULE_TYPE_BASIC, KSI_VerificationRule_PublicationsFileDoesNotContainSignaturePublication},\n",
    "static const KSI_Rule suitablePubMissing_pubFile[] = {\n",
    "hb_anchor.pubfile", "publications-file policy extends even though the file has (another hash for) the signature's publication time: PUB-05 masked")

# ---- rule code (per-rule harnesses) ----
F = "src/ksi/publicationsfile.c"
mut("R1", V, "\tif (!KSI_Integer_equals(respReqId, reqReqId)) {\n\t\tKSI_pushError(ctx, res = KSI_INVALID_ARGUMENT, \"Request id's mismatch.\");",
    "\tif (0) {\n\t\tKSI_pushError(ctx, res = KSI_INVALID_ARGUMENT, \"Request id's mismatch.\");",
    "h_ext.head_nocal,h_ext.up_cal", "request-id check removed from receiveCalendarHashChain")
mut("R2", V, "\tif (status != NULL && !KSI_Integer_equalsUInt(status, 0)) {\n\t\tKSI_Utf8String *errorMsg = NULL;\n\t\tres = KSI_ExtendResp_getErrorMsg(resp, &errorMsg);",
    "\tif (0) {\n\t\tKSI_Utf8String *errorMsg = NULL;\n\t\tres = KSI_ExtendResp_getErrorMsg(resp, &errorMsg);",
    "h_ext.head_nocal", "extender status code ignored in receiveCalendarHashChain")
mut("R3", V, "if (KSI_Integer_getUInt64(calTime) < notBefore || notAfter < KSI_Integer_getUInt64(calTime)) {", "if (KSI_Integer_getUInt64(calTime) <= notBefore || notAfter < KSI_Integer_getUInt64(calTime)) {",
    "h_key.valid_c1", "KEY-03 window: notBefore bound made exclusive")
mut("R4", V, "if (KSI_Integer_getUInt64(calTime) < notBefore || notAfter < KSI_Integer_getUInt64(calTime)) {", "if (KSI_Integer_getUInt64(calTime) < notBefore || notAfter <= KSI_Integer_getUInt64(calTime)) {",
    "h_key.valid_c1", "KEY-03 window: notAfter bound made exclusive")
mut("R5", V, "\tif (info->extendingAllowed == 0) {", "\tif (0) {",
    "h_user.nocal_up1", "extendingAllowed test dropped inside the extending-permitted rule")
mut("R6", V, "\tif (!KSI_DataHash_equals(sigPubHash, usrPubHash)) {", "\tif (0 && !KSI_DataHash_equals(sigPubHash, usrPubHash)) {",
    "h_user.cal_pub_up1_same32", "user publication hash not compared (PUB-04 never raised)")
mut("R7", F, "\t\t\tif (imprint != NULL && !KSI_DataHash_equals(pr->publishedData->imprint, imprint)) {", "\t\t\tif (0) {",
    "h_pubfile.n1_pub,h_pubfile.n2_pub", "publications file lookup compares the publication time but not the hash")
mut("R8", F, "\t\t/* Check if current publication time is after given time. */\n\t\tif (KSI_Integer_compare(pubTime, tm) <= 0) {\n\t\t\t/* Check if current publication time is before the earliest so far. */",
    "\t\t/* Check if current publication time is after given time. */\n\t\tif (KSI_Integer_compare(pubTime, tm) < 0) {\n\t\t\t/* Check if current publication time is before the earliest so far. */",
    "h_pubfile.n1_pub,h_ext.pf_n2_nocal", "nearest publication: a publication exactly at the signing time no longer counts")
mut("R9", V, "\t\tif (sigRightLink == NULL && extSigRightLink == NULL) {\n\t\t\t/* Match: both chains over at same time. */", "\t\tif (sigRightLink == NULL || extSigRightLink == NULL) {\n\t\t\t/* Match: both chains over at same time. */",
    "h_cmp.cal_rl_c1_e1_d0_1,h_cmp.cal_rl_c1_e2_d0_2", "right links: a chain that ends earlier is accepted (count not compared)")
mut("R10", V, "\tif (KSI_Integer_compare(aggregationChain->aggregationTime, extCalTime) != 0) {", "\tif (KSI_Integer_compare(aggregationChain->aggregationTime, extCalTime) > 0) {",
    "h_cmp.cal_ti_nocal_e1", "CAL-03: a later aggregation time in the extender chain is accepted")
mut("R11", V, "\tif (!KSI_Integer_equals(aggrTime, extAggrTime)) {", "\tif (0) {",
    "h_cmp.pf_ti_e1", "revert of fix fdc15f8: publications-file PUB-02 rule does not compare the aggregation time")
mut("R12", V, "\tif (!KSI_Integer_equals(usrPubTime, extPubTime)) {", "\tif (0) {",
    "h_cmp.up_ti_e1", "user-publication PUB-02 rule does not compare the publication time")
mut("R13", V, "\tif (!KSI_DataHash_equals(tempData->aggregationOutputHash, calInputHash)) {\n\t\tKSI_LOG_info(ctx, \"Calendar hash chain's input hash does not match with aggregation root hash.\");\n\t\tKSI_LOG_logDataHash(ctx, KSI_LOG_DEBUG, \"Input hash from aggregation :\", tempData->aggregationOutputHash);\n\t\tKSI_LOG_logDataHash(ctx, KSI_LOG_DEBUG, \"Expected input hash         :\", calInputHash);\n\n\t\tVERIFICATION_RESULT_ERR(KSI_VER_RES_FAIL, KSI_VER_ERR_CAL_2, step);",
    "\tif (0) {\n\t\tVERIFICATION_RESULT_ERR(KSI_VER_RES_FAIL, KSI_VER_ERR_CAL_2, step);",
    "h_cmp.cal_ti_nocal_e1", "CAL-02: input hash of the extender chain not compared")
mut("R14", V, "\t\tKSI_LOG_info(ctx, \"Suitable PKI certificate not found in publications file.\");\n\n\t\tVERIFICATION_RESULT_ERR(KSI_VER_RES_NA, KSI_VER_ERR_GEN_2, step);",
    "\t\tKSI_LOG_info(ctx, \"Suitable PKI certificate not found in publications file.\");\n\n\t\tVERIFICATION_RESULT_OK(step);",
    "h_key.exist_c2", "CertificateExistence reports OK when no certificate matches")
mut("R15", V, "\tres = KSI_PKITruststore_verifyRawSignature(ctx, rawData, rawData_len, KSI_Utf8String_cstr(sigtype),", "\tres = KSI_PKITruststore_verifyRawSignature(ctx, rawData + 2, rawData_len - 2, KSI_Utf8String_cstr(sigtype),",
    "h_key.sig_c1", "KEY-02: PKI signature checked over the payload only (TLV header skipped)")
mut("R16", F, "\t\tif (KSI_OctetString_equals(cId, id)) {", "\t\tif (1) {",
    "h_key.exist_c2,h_key.valid_c2", "certificate lookup ignores the certificate id (first certificate wins)")
mut("R17", V, "\tif (sig->calendarChain != NULL) {\n\t\tres = KSI_CalendarHashChain_getAggregationTime(sig->calendarChain, &startTime);", "\tif (sig->calendarChain != NULL) {\n\t\tres = KSI_CalendarHashChain_getPublicationTime(sig->calendarChain, &startTime);",
    "h_ext.same_cal", "extension requested from the publication time instead of the aggregation time")
mut("R18", V, "\t\tres = KSI_verifyPublicationsFile(info->ctx, tmp);\n\t\tif (res != KSI_OK) goto cleanup;\n", "",
    "h_pubfile.n1_pub_download", "downloaded publications file used without PKI verification")
mut("R19", V, "\tif (KSI_Integer_compare(aggregationTime, usrPubDataTime) != -1) {", "\tif (KSI_Integer_compare(aggregationTime, usrPubDataTime) == 1) {",
    "h_user.nocal_up1", "creation-time rule accepts a signature created exactly at the user publication time")
mut("R20", V, "\t/* Clear the available calendar in case one is attached. */\n\tif (tempData->calendarChain != NULL) {\n\t\tKSI_CalendarHashChain_free(tempData->calendarChain);\n\t\ttempData->calendarChain = NULL;\n\t}\n", "",
    "h_ext.same_cal,h_ext.head_nochain", "stale buffered chain survives a failed extension")
mut("R21", V, "\tif (info->userPublication == NULL ||\n\t\t\tinfo->userPublication->time == NULL || info->userPublication->imprint == NULL) {", "\tif (info->userPublication == NULL ||\n\t\t\tinfo->userPublication->time == NULL) {",
    "h_user.cal_pub_up3", "user publication without imprint counts as supplied")
mut("R22", V, "\tif (!KSI_DataHash_equals(rootHash, extRootHash)) {", "\tif (!KSI_DataHash_equals(rootHash, rootHash)) {",
    "h_cmp.cal_root_c1_e1_d0_0", "CAL-01 compares the signature's root with itself")
mut("R23", V, "\tif (!KSI_DataHash_equals(extRootHash, usrPubDataHash)) {", "\tif (0) {",
    "h_cmp.up_hash_e1_d0", "user-publication PUB-01 rule does not compare the root with the publication hash")
mut("R24", V, "\t\tif (!KSI_DataHash_equals(sigRightLinkHash, extSigRightLinkHash)) {", "\t\tif (0) {",
    "h_cmp.cal_rl_c1_e1_d0_0", "right links: imprints not compared (only the count)")
mut("R25", V, "\tres = KSI_PublicationsFile_findPublication(tempData->publicationsFile,\n\t\t\t(const KSI_PublicationRecord*)sig->publication, &pubRec);",
    "\tres = KSI_PublicationsFile_findPublicationByTime(tempData->publicationsFile,\n\t\t\tsig->publication->publishedData->time, &pubRec);",
    "h_pubfile.n1_pub", "PUB-05 rule looks the publication up by time only")
mut("R27", V, "\tif (info->userPublication != NULL) {\n\t\tKSI_LOG_info(info->ctx, \"User publication data provided.\");", "\tif (info->userPublication != NULL && info->userPublication->time != NULL && info->userPublication->imprint != NULL) {\n\t\tKSI_LOG_info(info->ctx, \"User publication data provided.\");",
    "h_user.cal_pub_up2,h_user.cal_pub_up3", "RequireNoUserProvidedPublication treats an incomplete publication object as absent (general policy would fall through to other anchors)")
mut("R28", V, "\tres = receiveCalendarHashChain(info, pubTime);\n\tif (res != KSI_OK) {\n\t\tHANDLE_CALENDAR_FETCH_ERR_RESULT;\n\t\tgoto cleanup;\n\t}\n\n\tVERIFICATION_RESULT_OK(step);\n\tres = KSI_OK;\n\ncleanup:\n\n\treturn res;\n}\n\nint KSI_VerificationRule_PublicationsFileExtendToPublication",
    "\tres = receiveCalendarHashChain(info, NULL);\n\tif (res != KSI_OK) {\n\t\tHANDLE_CALENDAR_FETCH_ERR_RESULT;\n\t\tgoto cleanup;\n\t}\n\n\tVERIFICATION_RESULT_OK(step);\n\tres = KSI_OK;\n\ncleanup:\n\n\treturn res;\n}\n\nint KSI_VerificationRule_PublicationsFileExtendToPublication",
    "h_ext.same_cal", "extend-to-same-publication-time asks for the calendar head instead")
mut("R29", V, "            VERIFICATION_RESULT_INC(KSI_VER_RES_NA, KSI_VER_ERR_GEN_2, step, res, ext, errmsg); \\", "            VERIFICATION_RESULT_INC(KSI_VER_RES_OK, KSI_VER_ERR_NONE, step, res, ext, errmsg); \\",
    "h_ext.head_nocal,h_pubfile.n1_pub_download", "an unavailable extender / publications file is reported as OK")
mut("R26", V, "\ttempData->calendarChain = tmp;\n\ttmp = NULL;\n", "",
    "h_ext.head_nocal,h_e2e.cal_head", "receiveCalendarHashChain reports success without buffering the reply's chain")
mut("T13", P, "\t{KSI_RULE_TYPE_BASIC, KSI_VerificationRule_ExtendedSignatureCalendarChainInputHash},\n\t{KSI_RULE_TYPE_BASIC, KSI_VerificationRule_ExtendedSignatureCalendarChainAggregationTime},\n\t{KSI_RULE_TYPE_BASIC, NULL}\n};\n\nstatic const KSI_Rule extendToCalendarChainRule",
    "\t{KSI_RULE_TYPE_BASIC, KSI_VerificationRule_ExtendedSignatureCalendarChainInputHash},\n\t{KSI_RULE_TYPE_BASIC, NULL}\n};\n\nstatic const KSI_Rule extendToCalendarChainRule",
    "hb_anchor.cal,h_e2e.cal_head", "calendar-based policy (extend to head): aggregation time not compared (CAL-03 rule dropped from extendToHeadRule)")
mut("T14", P, "static const KSI_Rule calendarHashChainRule_cal[] = {\n\t{KSI_RULE_TYPE_COMPOSITE_OR, extendToHeadRule},", "static const KSI_Rule calendarHashChainRule_cal[] = {\n\t{KSI_RULE_TYPE_COMPOSITE_OR, emptyRules},\n\t{KSI_RULE_TYPE_COMPOSITE_OR, extendToHeadRule},",
    "hb_anchor.cal,h_e2e.cal_status", "always-OK shortcut as first OR branch of the calendar-based anchor table")


def sh(cmd, **kw):
    return subprocess.run(cmd, stdout=subprocess.PIPE, stderr=subprocess.STDOUT, universal_newlines=True, **kw)


def main():
    ap = argparse.ArgumentParser()
    ap.add_argument("--only", default="")
    ap.add_argument("--jobs", type=int, default=4)
    a = ap.parse_args()
    sel = [x for x in a.only.split(",") if x]
    r = sh([os.path.join(VERIF, "engine", "mkscratch.sh"), SCRATCH])
    if r.returncode != 0:
        print(r.stdout); return 2
    rows = []
    try:
        for m in M:
            if sel and not any(m["id"].startswith(s) for s in sel):
                continue
            path = os.path.join(SCRATCH, m["file"])
            orig = open(path).read()
            if orig.count(m["old"]) != 1:
                rows.append((m, "NOT-APPLIED (pattern occurs %d times)" % orig.count(m["old"]), ""))
                continue
            open(path, "w").write(orig.replace(m["old"], m["new"]))
            t0 = time.time()
            env = dict(os.environ); env["VERIF_REPO"] = SCRATCH
            r = sh([sys.executable, os.path.join(VERIF, "engine", "ksicheck.py"), "C04", "--only", m["only"], "--jobs", str(a.jobs)], env=env, cwd=VERIF)
            open(path, "w").write(orig)
            out = r.stdout
            stat = re.findall(r"^\[C04\] (\S+)\s+(\S+)", out, re.M)
            checks = sorted(set(re.findall(r"check=CHECK (.*?) \(", out)))
            mism = re.findall(r"MODEL-MISMATCH[^\n]*", out)
            caught = any(s != "ok" for _, s in stat) and ("VIOLATION" in out or mism or any(s in ("vacuous",) for _, s in stat))
            verdict = "CAUGHT" if ("VIOLATION" in out) else ("caught (non-ok: %s)" % ",".join(s for _, s in stat if s != "ok") if caught else "MISSED")
            rows.append((m, verdict, "; ".join(checks)[:400] + (" " + mism[0][:200] if mism else "")))
            print("%s %s %.0fs  %s" % (m["id"], verdict, time.time() - t0, "; ".join(checks)[:300]), flush=True)
            if verdict == "MISSED" or "non-ok" in verdict:
                print(out[-1500:], flush=True)
    finally:
        sh(["git", "-C", "/repo", "worktree", "remove", "--force", SCRATCH])
    print("\n| id | mutation | harness | result | failing checks |\n|---|---|---|---|---|")
    for m, v, c in rows:
        print("| %s | %s (`%s`) | %s | %s | %s |" % (m["id"], m["what"], m["file"].split("/")[-1], m["only"], v, c))
    return 0


if __name__ == "__main__":
    sys.exit(main())
