/* C04 H-c (end to end, extension paths): the REAL anchor sub-tables of policy.c evaluated by the REAL Rule_verify over the REAL
 * rules of verification_rule.c - fetching rule (transport seam), deprecated-algorithm probe and the three comparisons in one run -
 * on a signature WITHOUT calendar chain, so that the only way to OK is an extender reply.  This checks the glue that the
 * decomposition H-b + per-rule harnesses relies on (the chain buffered by the fetching rule is the one every later rule reads; the
 * facts of H-b are what the rules compute) on one shape per policy:
 *   GROUP 0  calendarHashChainRule_cal            (calendar based: extend to head, CAL-02, CAL-03)
 *   GROUP 1  userProvidedPublicationBasedRules+1  (user publication: existence, creation time, permission, fetch, PUB-01..03)
 *   GROUP 2  publicationRecordRule_pubFile        (publications file with one record: suitable, permission, fetch, PUB-01..03)
 * Oracle over the raw values (property statement):
 *   OK  =>  extending allowed (groups 1, 2), anchor at/after the aggregation time (strictly after for the user publication), every
 *           transport step succeeded, reply status 0, request ids equal, and the reply's chain has the anchor's publication time,
 *           the signature's aggregation time, starts from the aggregation root and (groups 1, 2) its root is the anchor hash;
 *   all of that except the hash equalities holds and no algorithm is deprecated  =>  OK iff both hash equalities hold, else FAIL with
 *           PUB-01 (root) / PUB-03 resp. CAL-02 (input hash);
 *   FAIL =>  PUB-01/02/03 (CAL-02/03) and the corresponding comparison really differs;
 *   not allowed / anchor not later / any failing step / extender error status / other request id  =>  never OK, never FAIL.
 * Shape: one aggregation chain of one link, reply chain of one link (direction concrete), file of one record. */
#include "verif.h"
#include "internal.h"
#include "verification_rule.h"
#include "impl/policy_impl.h"
#include "ctx.h"
#include "hash_model.h"
#include "verif_post.h"
#include "types_base.c"
#include "sig_builder.h"
#ifndef GROUP
#define GROUP 1
#endif
#if GROUP == 2
#define C04_WITH_PUBFILE 1
#define C04_NPUB 1
#endif
#if GROUP == 1
#define C04_USERPUB 1
#endif
#ifndef EXCH
#define EXCH 0     /* the exchange with the extender (its failure modes are the subject of h_ext.c; here the outcome is concrete so that the buffered
                      chain is a concrete object): 0 success, 1 network error while receiving, 2 out of memory while sending, 3 extender status 0x101,
                      4 reply with another request id */
#endif
#include "ext_seam.h"
#if EXCH == 3
#define C04_EXT_STATUS_VALUE 0x101
#else
#define C04_EXT_STATUS_VALUE 0
#endif
#if EXCH == 4
#define C04_EXT_REQID_VALUE (VERIF_ext.req_id + 1)
#else
#define C04_EXT_REQID_VALUE (VERIF_ext.req_id)
#endif
#define C04_WITH_EXT 1
#define C04_EXT_NLINKS 1
#ifndef C04_EXT_DIRS
#define C04_EXT_DIRS 1
#endif
#include "c04_builder.h"
#include "policy.c"

#if SB_HAS_CAL || SB_HAS_PUB || SB_NCHAINS != 1
#error "h_e2e: signature without calendar chain, one aggregation chain"
#endif

static int rec_eq_hash(unsigned k, const struct sb_hash_v *h) {
	if (h->len != 21 || h->imp[0] != (u8)VERIF_hm_rec[k].alg) return 0;
	int eq = 1;
	for (unsigned i = 0; i < 20; i++) if (VERIF_hm_rec[k].digest[i] != h->imp[1 + i]) eq = 0;
	return eq;
}
/* record k is the (only) step of the reply's chain: input and sibling in link order, then 0xff */
static int rec_is_ext_step(unsigned k, const struct c04_cal_v *E) {
	const struct sb_hash_v *L = E->link[0].isLeft ? &E->in : &E->link[0].sib, *R = E->link[0].isLeft ? &E->link[0].sib : &E->in;
	if (VERIF_hm_rec[k].len != 43) return 0;
	int eq = 1;
	for (unsigned i = 0; i < 21; i++) { if (VERIF_hm_rec[k].msg[i] != L->imp[i]) eq = 0; if (VERIF_hm_rec[k].msg[21 + i] != R->imp[i]) eq = 0; }
	return eq && VERIF_hm_rec[k].msg[42] == 0xff;
}

void harness(void) {
	VERIF_ctx_init();
	VERIF_hm_init(0);
	VERIF_ext_init();
	KSI_CTX *ctx = VERIF_ctx;
	sb_build(ctx);
	c04_build_userpub(ctx);
#if GROUP == 2
	c04_build_pubfile(ctx);
#endif
#ifdef AGGR_TIME
	/* concrete aggregation time and anchor time (instances enumerate the order): whether a request can be formed at all (start <= end) then
	 * is decided while the program is unfolded, and the request object handed to the clean-up code is a concrete object */
	sb_chain[0]->aggregationTime->value = AGGR_TIME; SB.ch[0].aggrTime = AGGR_TIME;
#if GROUP == 1
	c04_userpub->time->value = ANCHOR_TIME; C4.up.time = ANCHOR_TIME;
#elif GROUP == 2
	c04_pf_rec[0]->publishedData->time->value = ANCHOR_TIME; C4.pf[0].time = ANCHOR_TIME;
#endif
#endif
	/* premise of every anchor table: internal verification succeeded, in particular the aggregation chain aggregates (C01 / C03: start level
	 * and level correction in range) */
	sb_vc.docAggrLevel = 0;
	ASSUME(SB.ch[0].link[0].lc <= 254);
	int allowed = ND_BOOL(extending_allowed);
	sb_vc.extendingAllowed = allowed;
	VERIF_ext.send_res = (EXCH == 2) ? KSI_OUT_OF_MEMORY : KSI_OK;
	VERIF_ext.perform_res = (EXCH == 1) ? KSI_NETWORK_ERROR : KSI_OK;
	VERIF_ext.get_res = KSI_OK;
	VERIF_ext.req_id = ND(u64, req_id);
	VERIF_ext.req_id_obj = sb_mk_int(VERIF_ext.req_id);
	VERIF_ext.resp = c04_build_extresp(ctx);
	const struct c04_cal_v *E = &C4.ext.cal;

	KSI_PolicyVerificationResult pr;
	memset(&pr, 0, sizeof(pr));
	pr.ref = 1;
	KSI_RuleVerificationResult_init(&pr.finalResult);
	const KSI_Rule *table =
#if GROUP == 0
		calendarHashChainRule_cal;
#elif GROUP == 1
		&userProvidedPublicationBasedRules[1];
#else
		publicationRecordRule_pubFile;
#endif
	int res = Rule_verify(table, &sb_vc, &pr);
	int rc = pr.finalResult.resultCode, ec = pr.finalResult.errorCode;
	int final_ok = (res == KSI_OK && rc == KSI_VER_RES_OK), final_fail = (res == KSI_OK && rc == KSI_VER_RES_FAIL);

	/* ---- facts over the raw values ---- */
	u64 aggr = SB.ch[0].aggrTime;
#if GROUP == 1
	const struct c04_pub_v *A = &C4.up; int anchor_ok = aggr < A->time;
#elif GROUP == 2
	const struct c04_pub_v *A = &C4.pf[0]; int anchor_ok = aggr <= A->time;
#else
	int anchor_ok = 1; allowed = 1;      /* the calendar based policy needs no anchor object and no permission */
#endif
	int exchange_ok = VERIF_ext.send_res == KSI_OK && VERIF_ext.perform_res == KSI_OK && VERIF_ext.get_res == KSI_OK
			&& C4.ext.status == 0 && C4.ext.reqId == VERIF_ext.req_id;
	int depr = 0;
#if GROUP != 0
	if (E->link[0].isLeft) { int st = KSI_checkHashAlgorithmAt(E->link[0].sib.imp[0], (time_t)E->pubTime); depr = (st == KSI_HASH_ALGORITHM_DEPRECATED || st == KSI_HASH_ALGORITHM_OBSOLETE); }
	int ptime_ok = E->pubTime == A->time;
#else
	int ptime_ok = 1;
#endif
	int atime_ok = E->aggrTime == aggr;
	/* hash facts.  The publication based tables aggregate the reply's chain first (PUB-01 rule) and the signature's aggregation chain second
	 * (PUB-03 rule); the calendar based table only the latter (CAL-02 rule).  The order assumption is itself checked (glue). */
	int k_ext = -1, k_agg = -1;
#if GROUP == 0
	if (VERIF_hm_nrec >= 1) k_agg = 0;
	CHECK(VERIF_hm_nrec <= 1, "C04.He2e calendar based table hashes the aggregation chain only");
#else
	if (VERIF_hm_nrec >= 1) k_ext = 0;
	if (VERIF_hm_nrec >= 2) k_agg = 1;
	CHECK(VERIF_hm_nrec <= 2 && (VERIF_hm_nrec == 0 || rec_is_ext_step(0, E)), "C04.He2e the first chain aggregated is the one the extender returned");
#endif
	int root_ok = 0, input_ok = 0;
#if GROUP != 0
	if (k_ext == 0) root_ok = rec_eq_hash(0, &A->imp);
#else
	root_ok = 1;
#endif
	if (k_agg >= 0) {
		/* the aggregation step hashes the signature's own input hash */
		const struct sb_hash_v *I = &SB.ch[0].in; unsigned off = SB.ch[0].link[0].isLeft ? 0 : SB.ch[0].link[0].siblen; int own = 1;
		for (unsigned i = 0; i < 21; i++) if (VERIF_hm_rec[GROUP == 0 ? 0 : 1].msg[off + i] != I->imp[i]) own = 0;
		CHECK(own, "C04.He2e the aggregation root is computed from the signature's own input hash");
		input_ok = rec_eq_hash(GROUP == 0 ? 0 : 1, &E->in);
	}
	CHECK(VERIF_hm_overflow == 0, "C04.He2e hash model large enough");

	CHECK(!final_ok || (allowed && anchor_ok && exchange_ok && ptime_ok && atime_ok && root_ok && input_ok),
			"C04.He2e OK only if an allowed, successful extension reproduces the anchor with the signature's aggregation root and time");
	if (allowed && anchor_ok && exchange_ok && !depr && ptime_ok && atime_ok) {
		if (root_ok && input_ok) CHECK(final_ok, "C04.He2e a reply reproducing the anchor from the signature's aggregation root is accepted");
		else CHECK(final_fail, "C04.He2e a reply with another root or input hash is a FAIL");
	}
	if (final_fail) {
#if GROUP == 0
		CHECK((ec == KSI_VER_ERR_CAL_2 && k_agg >= 0 && !input_ok) || (ec == KSI_VER_ERR_CAL_3 && !atime_ok), "C04.He2e FAIL carries CAL-02 / CAL-03 of a comparison that really differs");
#else
		CHECK((ec == KSI_VER_ERR_PUB_1 && k_ext >= 0 && !root_ok) || (ec == KSI_VER_ERR_PUB_2 && !(ptime_ok && atime_ok)) || (ec == KSI_VER_ERR_PUB_3 && k_agg >= 0 && !input_ok),
				"C04.He2e FAIL carries PUB-01 / PUB-02 / PUB-03 of a comparison that really differs");
#endif
		CHECK(allowed && anchor_ok && exchange_ok, "C04.He2e FAIL only after an allowed and successful extension");
	}
	if (!allowed || !anchor_ok || !exchange_ok) CHECK(!final_ok && !final_fail, "C04.He2e forbidden, impossible or failed extension is inconclusive: never OK, never FAIL");
	if (!allowed) CHECK(VERIF_ext.sends == 0, "C04.He2e nothing is sent to the extender without permission");
	CHECK(VERIF_ext.sends <= 1, "C04.He2e at most one extension request");
	if (VERIF_ext.sends == 1) {
		CHECK(VERIF_ext.req_has_start && VERIF_ext.req_start == aggr, "C04.He2e the request starts at the signature's aggregation time");
#if GROUP != 0
		CHECK(VERIF_ext.req_has_end && VERIF_ext.req_end == A->time, "C04.He2e the request ends at the anchor's publication time");
#else
		CHECK(!VERIF_ext.req_has_end, "C04.He2e extend to head has an open end");
#endif
	}

	CHECK(exchange_ok == (EXCH == 0), "C04.He2e (instance consistency) outcome of the exchange");
#if GROUP == 1 && defined(AGGR_TIME)
#define ANCHOR_LATER ((ANCHOR_TIME) > (AGGR_TIME))
#elif GROUP == 2 && defined(AGGR_TIME)
#define ANCHOR_LATER ((ANCHOR_TIME) >= (AGGR_TIME))
#else
#define ANCHOR_LATER 1
#endif
#if !ANCHOR_LATER
	if (!final_ok && !final_fail) WITNESS_POINT("anchor not later than the signature: inconclusive");
#elif EXCH == 0
	if (final_ok) WITNESS_POINT("extension reproduces the anchor: OK");
#if GROUP != 0
	if (final_fail && ec == KSI_VER_ERR_PUB_1) WITNESS_POINT("PUB-01 end to end");
	if (final_fail && ec == KSI_VER_ERR_PUB_2 && ptime_ok) WITNESS_POINT("PUB-02 (aggregation time) end to end");
	if (final_fail && ec == KSI_VER_ERR_PUB_3) WITNESS_POINT("PUB-03 end to end");
	if (!allowed && anchor_ok && !final_ok) WITNESS_POINT("extension not allowed: inconclusive");
#else
	if (final_fail && ec == KSI_VER_ERR_CAL_2) WITNESS_POINT("CAL-02 end to end");
	if (final_fail && ec == KSI_VER_ERR_CAL_3) WITNESS_POINT("CAL-03 end to end");
#endif
#elif EXCH == 2
	if (allowed && anchor_ok && res != KSI_OK) WITNESS_POINT("failed exchange: error status");
#else
	if (allowed && anchor_ok && res == KSI_OK) WITNESS_POINT("failed exchange: NA");
#endif
}
