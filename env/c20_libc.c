/* Loop-based memcpy for CBMC runs of the C20 harnesses.  CBMC's built-in memcpy model copies through a
 * variable-length array when the size is not a constant; net.c:newStringFromExisting copies URI components
 * whose length is a (small) symbolic value, which made the formula 5 M variables.  This body copies byte by
 * byte under a constant bound C20_MEMCPY_MAX and asserts that the bound suffices (so nothing is cut off
 * silently).  Compiles to nothing under -DREPLAY (the native replay uses the C library). */
#ifndef REPLAY
#include <stddef.h>
#ifndef C20_MEMCPY_MAX
#define C20_MEMCPY_MAX 64
#endif
void *memcpy(void *dst, const void *src, size_t n) {
	unsigned char *d = dst; const unsigned char *s = src;
	__CPROVER_assert(n <= C20_MEMCPY_MAX, "memcpy model: size within the modelled bound");
	for (size_t i = 0; i < C20_MEMCPY_MAX; i++) if (i < n) d[i] = s[i];
	return dst;
}
#endif
