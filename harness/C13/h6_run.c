/* C13 H-6: one service round (KSI_AsyncService_run -> asyncClient_run) from an ARBITRARY invariant-satisfying client
 * state with an arbitrary transport outcome (handles it holds may be sent or fail; dispatch returns OK,
 * KSI_ASYNC_CONNECTION_CLOSED or another error) and an arbitrary outcome of response processing (stubbed here:
 * its effect on the cache is the subject of H-2, H-3 and H-7; here it only succeeds or fails).
 *
 * cause := the dispatch error if there is one, else the response-processing error if there is one, else
 *          "connection closed" if dispatch reported it, else none.
 * Contract:
 *  - the transport is dispatched once and the response queue is processed once, also after a failed dispatch
 *    (replies that arrived before the connection broke are not lost);
 *  - a handle that has been sent and is still unanswered fails with exactly `cause` when there is one, and stays
 *    waiting otherwise (unless its receive timeout elapsed and it is the one returned); a handle fails only with a
 *    cause that occurred; answered and failed handles are never altered;
 *  - at most one handle is returned; it was cached, it is in a final state and it has left the cache;
 *    NULL is returned only if no cached handle is final;
 *  - waiting = pending + received = number of handles still cached; Inv(c) afterwards. */
#define HN "C13.H6"
#include "verif.h"
#include "internal.h"
#include "ctx.h"
#include "verif_post.h"
#include "c13_model.h"
#include "net_async.c"
#include "c13_state.h"

#ifndef WANT_HANDLE
#define WANT_HANDLE 1      /* 0: KSI_AsyncService_run(service, NULL, &waiting) - pump only */
#endif

static unsigned hr_calls; static int hr_res;
static int stub_handle_resp(KSI_AsyncClient *c) { (void)c; hr_calls++; hr_res = C13_ND_STATUS(response_processing); return hr_res; }

static int timed_out(time_t snd, size_t timeout) { return timeout == 0 || (u64)(c13_now - snd) > (u64)timeout; }

void harness(void) {
	VERIF_ctx_init();
	KSI_CTX *ctx = VERIF_ctx;
	struct c13_snap pre;
	int res;
	KSI_AsyncClient *c = c13_mk_client(ctx, &pre);
	const size_t timeout = c->options[KSI_ASYNC_OPT_RCV_TIMEOUT];
	KSI_AsyncHandle *out = NULL;
	size_t waiting = (size_t)-1;

	res = asyncClient_run(c, stub_handle_resp, WANT_HANDLE ? &out : NULL, &waiting);

	CHECK(res == KSI_OK, HN " a service round itself never fails");
	CHECK(c13_tr.dispatch_calls == 1 && hr_calls == 1, HN " one dispatch and one pass over the response queue per round, also after a failed dispatch");
	const int dres = c13_tr.dispatch_res;
	const int cause = (dres != KSI_OK && dres != KSI_ASYNC_CONNECTION_CLOSED) ? dres : (hr_res != KSI_OK ? hr_res : dres);

	int ok = 1, cachedOk = 1; unsigned ncached = 0, nfinal = 0; size_t k = CACHE_S;
	for (size_t i = 0; i < CACHE_S; i++) {
		const struct c13_hsnap *p = (i == 0) ? &pre.conf : &pre.slot[i];
		KSI_AsyncHandle *cur = (i == 0) ? c->serverConf : c->reqCache[i];
		if (p->h == NULL) { if (cur != NULL) cachedOk = 0; continue; }
		const KSI_AsyncHandle *h = p->h;            /* still alive: cached or returned */
		const int returned = (out != NULL && out == h);
		if (returned) { k = i; if (cur != NULL) cachedOk = 0; }
		else { if (cur != h) cachedOk = 0; ncached++; }
		const int q = h->state;
		const int heldByTransport = (p->ref == 2);
		if (p->state == KSI_ASYNC_STATE_RESPONSE_RECEIVED || p->state == KSI_ASYNC_STATE_PUSH_CONFIG_RECEIVED || p->state == KSI_ASYNC_STATE_ERROR) {
			if (q != p->state || h->err != p->err || h->respCtx != p->respCtx || h->errMsg != p->errMsg) ok = 0;
		} else if (p->state == KSI_ASYNC_STATE_WAITING_FOR_RESPONSE) {
			if (cause != KSI_OK) { if (q != KSI_ASYNC_STATE_ERROR || h->err != cause) ok = 0; }
			else if (returned) { if (q != KSI_ASYNC_STATE_ERROR || h->err != KSI_NETWORK_RECIEVE_TIMEOUT || !timed_out(p->sndTime, timeout)) ok = 0; }
			else { if (q != KSI_ASYNC_STATE_WAITING_FOR_RESPONSE || h->err != p->err) ok = 0; }
		} else {   /* WAITING_FOR_DISPATCH */
			if (!heldByTransport) { if (q != KSI_ASYNC_STATE_WAITING_FOR_DISPATCH) ok = 0; }
			else {
				if (q != KSI_ASYNC_STATE_WAITING_FOR_DISPATCH && q != KSI_ASYNC_STATE_WAITING_FOR_RESPONSE && q != KSI_ASYNC_STATE_ERROR) ok = 0;
				if (q == KSI_ASYNC_STATE_WAITING_FOR_RESPONSE && cause != KSI_OK) ok = 0;
				if (q == KSI_ASYNC_STATE_ERROR && h->err == KSI_OK) ok = 0;
				if (q == KSI_ASYNC_STATE_ERROR && (h->err == KSI_ASYNC_CONNECTION_CLOSED) && dres != KSI_ASYNC_CONNECTION_CLOSED) ok = 0;
			}
		}
		if (h->id != p->id || h->ref != p->ref) ok = 0;
		/* final in the post-state? */
		if (!returned) {
			if (q == KSI_ASYNC_STATE_ERROR || q == KSI_ASYNC_STATE_RESPONSE_RECEIVED || q == KSI_ASYNC_STATE_PUSH_CONFIG_RECEIVED) nfinal++;
			if (q == KSI_ASYNC_STATE_WAITING_FOR_RESPONSE && timed_out(h->sndTime, timeout)) nfinal++;
		}
	}
	CHECK(ok, HN " sent handles fail exactly with the cause that occurred, other handles are not altered");
	CHECK(cachedOk, HN " every handle not returned is still cached in its place, the returned one has left the cache");
	if (out != NULL) {
		CHECK(k < CACHE_S, HN " returned handle was cached");
		CHECK(out->state == KSI_ASYNC_STATE_ERROR || out->state == KSI_ASYNC_STATE_RESPONSE_RECEIVED || out->state == KSI_ASYNC_STATE_PUSH_CONFIG_RECEIVED, HN " returned handle is in a final state");
#if WANT_HANDLE
		if (out->state == KSI_ASYNC_STATE_ERROR && out->err == KSI_ASYNC_CONNECTION_CLOSED && k != 0 && k < CACHE_S && pre.slot[k].state == KSI_ASYNC_STATE_WAITING_FOR_RESPONSE) WITNESS_POINT("sent handle returned with connection-closed error");
		if (out->state == KSI_ASYNC_STATE_RESPONSE_RECEIVED && cause != KSI_OK) WITNESS_POINT("answered handle returned although the round failed");
#endif
	} else {
#if WANT_HANDLE
		CHECK(nfinal == 0, HN " NULL only when no cached handle is finished");
		if (ncached >= 1) WITNESS_POINT("round without a finished handle");
#else
		if (nfinal >= 1 && cause != KSI_OK) WITNESS_POINT("pump-only round leaves failed handles cached");
#endif
	}
	CHECK(waiting == c->pending + c->received && waiting == ncached, HN " reported waiting count = handles still cached");
	c13_check_inv(c);
}
