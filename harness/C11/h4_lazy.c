/* C11 H-4: the lazy payload forms of KSI_TLV (tlv.c) never change the serialisation.
 *   parse (KSI_TLV_parseBlob2) -> serialize [raw form]            = the canonical input bytes
 *   -> KSI_TLV_getNestedList (top, optionally also child 0)  -> serialize [nested form]   = the same bytes
 *   -> KSI_TLV_getRawValue (encodeAsRaw: back to the raw form, own 64 KiB buffer) -> serialize = the same bytes
 * and the object reports the same tag / flags / payload throughout.
 * Input: the CANONICAL encoding (2-byte header exactly when tag <= 0x1f and length <= 0xff) of a concrete layout
 * (top element, NCH children, optionally one grandchild inside child 0; lengths per instance) with symbolic tags,
 * flags and payload bytes.  As in C09 H-4 (same measured necessity: symbolic header bytes make every length path
 * dependent), KSI_FTLV_memRead is replaced by a model that returns the layout's concrete lengths and the symbolic
 * tag / flags the header bytes were built from; the byte-level header decoder is the subject of C09 H-1/H-2. */
#include "verif.h"
#include "internal.h"
#include "tlv.h"
#include "fast_tlv.h"
#include "ctx.h"
#include "verif_post.h"
#ifndef NCH
#define NCH 1
#endif
#ifndef CH_HDR
#define CH_HDR {2, 2}
#endif
#ifndef CH_LEN
#define CH_LEN {2, 0}          /* payload length of each child (for child 0 with GC: computed, see below) */
#endif
#ifndef TOP_HDR
#define TOP_HDR 2
#endif
#ifndef GC
#define GC 0                   /* 1: child 0's payload is exactly one grandchild element (header 2, GC_LEN payload bytes) */
#endif
#ifndef GC_LEN
#define GC_LEN 1
#endif
#ifndef CH_TAG
#define CH_TAG {0x01, 0x02}    /* child tags are CONCRETE per instance (they decide the header length inside encodeAsRaw's
                                  64 KiB buffer; a symbolic header length there is fatal for CBMC); top tag, all flags and
                                  all payload bytes stay symbolic */
#endif
#ifndef GC_TAG
#define GC_TAG 0x03
#endif
#ifndef RAWPAY
#define RAWPAY 0               /* NCH == 0: raw payload bytes of the top element */
#endif
#define MAXEL 4
static const int ch_hdr[2] = CH_HDR, ch_len_in[2] = CH_LEN, ch_tag[2] = CH_TAG;
#define CHLEN(k) ((GC && (k) == 0) ? (2 + GC_LEN) : ch_len_in[k])
#if NCH == 0
#define PLEN RAWPAY
#elif NCH == 1
#define PLEN (ch_hdr[0] + CHLEN(0))
#else
#define PLEN (ch_hdr[0] + CHLEN(0) + ch_hdr[1] + CHLEN(1))
#endif
#define NEL (1 + NCH + GC)
#define LMAX 40
static u8 in[LMAX];
static unsigned L;
static unsigned el_off[MAXEL], el_hdr[MAXEL], el_len[MAXEL];
static unsigned el_tag[MAXEL]; static int el_nc[MAXEL], el_fw[MAXEL];

int KSI_FTLV_memRead(const unsigned char *m, size_t l, KSI_FTLV *t) {
	unsigned k;
	if (m == NULL || t == NULL) return KSI_INVALID_ARGUMENT;
	size_t o = (size_t)(m - in);
	for (k = 0; k < NEL; k++) {
		if (el_off[k] == o) {
			t->off = 0; t->hdr_len = el_hdr[k]; t->dat_len = el_len[k];
			t->tag = el_tag[k]; t->is_nc = el_nc[k]; t->is_fwd = el_fw[k];
			if (l < 2 || l < el_hdr[k] || l < (size_t)el_hdr[k] + el_len[k]) return KSI_INVALID_FORMAT;
			return KSI_OK;
		}
	}
	CHECK(0, "C11.H4 model: header read at an offset that starts no element of the layout");
	return KSI_INVALID_FORMAT;
}
/* canonical header, written from the TLV format definition (tlv.h) */
static void put_hdr(unsigned k) {
	unsigned o = el_off[k];
	if (el_hdr[k] == 4) { in[o] = (u8)(0x80 | (el_nc[k] ? 0x40 : 0) | (el_fw[k] ? 0x20 : 0) | (el_tag[k] >> 8)); in[o + 1] = (u8)el_tag[k]; in[o + 2] = (u8)(el_len[k] >> 8); in[o + 3] = (u8)el_len[k]; }
	else { in[o] = (u8)((el_nc[k] ? 0x40 : 0) | (el_fw[k] ? 0x20 : 0) | el_tag[k]); in[o + 1] = (u8)el_len[k]; }
}
static int same_as_input(const u8 *out, size_t n) {
	unsigned i; int eq = (n == L);
	for (i = 0; i < LMAX; i++) if (eq && i < L && out[i] != in[i]) eq = 0;
	return eq;
}

void harness(void) {
	VERIF_ctx_init(); KSI_CTX *ctx = VERIF_ctx;
	unsigned k, i, off; int res;
	/* ---- layout (concrete) ---- */
	L = TOP_HDR + PLEN;
	el_off[0] = 0; el_hdr[0] = TOP_HDR; el_len[0] = PLEN;
	off = TOP_HDR;
	for (k = 0; k < NCH; k++) { el_off[1 + k] = off; el_hdr[1 + k] = (unsigned)ch_hdr[k]; el_len[1 + k] = (unsigned)CHLEN(k); off += (unsigned)ch_hdr[k] + (unsigned)CHLEN(k); }
#if GC
	el_off[1 + NCH] = el_off[1] + el_hdr[1]; el_hdr[1 + NCH] = 2; el_len[1 + NCH] = GC_LEN;
#endif
	/* ---- symbolic content, canonical header form ---- */
	for (i = 0; i < LMAX; i++) in[i] = ND(u8, in);
	for (k = 0; k < NEL; k++) {
		el_nc[k] = ND_BOOL(nc); el_fw[k] = ND_BOOL(fw);
		if (k == 0) el_tag[k] = ND(unsigned, tag);
		else if (k <= NCH) el_tag[k] = (unsigned)ch_tag[k - 1];
		else el_tag[k] = GC_TAG;
		if (el_hdr[k] == 2) ASSUME(el_tag[k] <= 0x1f); else ASSUME(el_tag[k] > 0x1f && el_tag[k] <= 0x1fff);   /* canonical: lengths here are all <= 0xff */
		put_hdr(k);
	}

	KSI_TLV *tlv = NULL;
	res = KSI_TLV_parseBlob2(ctx, in, L, 0, &tlv);
	CHECK(res == KSI_OK && tlv != NULL, "C11.H4 canonical input is parsed");
	if (res != KSI_OK || tlv == NULL) return;

	u8 out0[LMAX], out1[LMAX], out2[LMAX]; size_t n0 = 0, n1 = 0, n2 = 0;
	res = KSI_TLV_serialize_ex(tlv, out0, L, &n0);
	CHECK(res == KSI_OK && same_as_input(out0, n0), "C11.H4 a parsed element re-serialises to exactly the bytes it was parsed from");
#if NCH > 0
	KSI_LIST(KSI_TLV) *lst = NULL;
	res = KSI_TLV_getNestedList(tlv, &lst);
	CHECK(res == KSI_OK && KSI_TLVList_length(lst) == NCH, "C11.H4 payload expands to its elements");
	if (res != KSI_OK) return;
#if GC
	{ KSI_TLV *c0 = NULL; KSI_LIST(KSI_TLV) *l2 = NULL;
	  res = KSI_TLVList_elementAt(lst, 0, &c0); ASSUME(res == KSI_OK && c0 != NULL);
	  res = KSI_TLV_getNestedList(c0, &l2);
	  CHECK(res == KSI_OK && KSI_TLVList_length(l2) == 1, "C11.H4 child payload expands to the grandchild"); }
#endif
	res = KSI_TLV_serialize_ex(tlv, out1, L, &n1);
	CHECK(res == KSI_OK && same_as_input(out1, n1), "C11.H4 serialisation is unchanged after switching to the nested form");
	if (el_nc[1] && !el_fw[0]) WITNESS_POINT("nested form serialised");
#endif
	const unsigned char *raw = NULL; size_t rawlen = 0;
	res = KSI_TLV_getRawValue(tlv, &raw, &rawlen);
	CHECK(res == KSI_OK && rawlen == PLEN, "C11.H4 raw value has the parsed payload length after switching back to the raw form");
	if (res != KSI_OK) return;
	int pay = 1;
	for (i = 0; i < LMAX; i++) if (i < PLEN && raw[i] != in[TOP_HDR + i]) pay = 0;
	CHECK(pay, "C11.H4 raw value bytes are the parsed payload bytes");
	res = KSI_TLV_serialize_ex(tlv, out2, L, &n2);
	CHECK(res == KSI_OK && same_as_input(out2, n2), "C11.H4 serialisation is unchanged after switching back to the raw form");
	CHECK(KSI_TLV_getTag(tlv) == el_tag[0] && (KSI_TLV_isNonCritical(tlv) != 0) == (el_nc[0] != 0) && (KSI_TLV_isForward(tlv) != 0) == (el_fw[0] != 0), "C11.H4 tag and flags unchanged by the form switches");
	if (el_tag[0] == (TOP_HDR == 2 ? 0x1f : 0x800)) WITNESS_POINT("round trip through both lazy forms");
	KSI_TLV_free(tlv);
}
