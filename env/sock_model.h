/* Socket / clock model (DESIGN 3.5) - see sock_model.c.  Everything the harness may set or inspect. */
#ifndef VERIF_SOCK_MODEL_H_
#define VERIF_SOCK_MODEL_H_
#include "verif.h"
#include <time.h>

#ifndef SK_STREAM_MAX
#define SK_STREAM_MAX 48        /* <= 64 so that constant-index reads stay field-sensitive in CBMC */
#endif
#ifndef SK_OUT_MAX
#define SK_OUT_MAX 32
#endif
#ifndef SK_SCRIPT_MAX
#define SK_SCRIPT_MAX 12
#endif
#ifndef SK_CHUNK_MAX
#define SK_CHUNK_MAX 16         /* largest number of bytes one recv/send call moves */
#endif
#ifndef SK_EINTR_MAX
#define SK_EINTR_MAX 2          /* SK_MODE_ND only: at most this many EINTR results per direction */
#endif

/* outcome of one recv()/send() call */
enum {
	SK_DATA = 1,      /* n bytes are transferred (never more than the caller offered)      */
	SK_EOF,           /* recv: returns 0 (orderly shutdown by the peer)                    */
	SK_WOULDBLOCK,    /* -1, errno = EAGAIN (== EWOULDBLOCK on Linux)                      */
	SK_HARDERR,       /* -1, errno = any value > 0 except EAGAIN/EWOULDBLOCK/EINTR         */
	SK_EINTR          /* -1, errno = EINTR                                                 */
};
struct sk_step { int kind; int n; };

enum { SK_MODE_SCRIPT = 0, SK_MODE_ND = 1 };

/* ---- connection ---- */
extern int VERIF_sk_fd;              /* descriptor of the (single) modelled connection; socket() hands it out */
extern int VERIF_sk_open;            /* 1 while the descriptor is open */
extern unsigned VERIF_sk_sockets;    /* successful socket() calls */
extern unsigned VERIF_sk_closes;     /* close() calls on the open descriptor */
extern unsigned VERIF_sk_misuse;     /* calls on a descriptor that is not the open one (use after close, double close, wrong fd) */
extern int VERIF_sk_gai_ret;         /* result of getaddrinfo (0 = one TCP address) */
extern int VERIF_sk_socket_fail;     /* socket() returns -1 */
extern int VERIF_sk_connect_ret;     /* 0, or -1 with VERIF_sk_connect_errno */
extern int VERIF_sk_connect_errno;
extern int VERIF_sk_ioctl_ret;
extern int VERIF_sk_close_ret;       /* result of close(): 0, or -1 with a symbolic errno other than EINTR */

/* ---- poll ---- */
extern int VERIF_sk_poll_ret;        /* -1, 0 or 1 */
extern short VERIF_sk_poll_revents;
extern unsigned VERIF_sk_polls;

/* ---- receive direction ---- */
extern int VERIF_sk_rx_mode;
extern struct sk_step VERIF_sk_rx[SK_SCRIPT_MAX];
extern unsigned VERIF_sk_rx_steps;   /* number of valid entries of VERIF_sk_rx */
extern unsigned VERIF_sk_rx_calls;   /* recv() calls so far */
extern unsigned VERIF_sk_rx_overrun; /* recv() calls beyond the script */
extern u8 VERIF_sk_stream[SK_STREAM_MAX];  /* bytes the peer sends, in order */
extern size_t VERIF_sk_stream_len;
extern size_t VERIF_sk_rx_pos;       /* stream bytes handed to the client so far */
extern void *VERIF_sk_rx_req_buf[SK_SCRIPT_MAX];   /* buffer / length offered by the k-th recv call (script mode) */
extern size_t VERIF_sk_rx_req_len[SK_SCRIPT_MAX];
extern size_t VERIF_sk_rx_req_max;   /* largest length ever offered */
extern int VERIF_sk_rx_last_errno;

/* ---- send direction ---- */
extern int VERIF_sk_tx_mode;
extern struct sk_step VERIF_sk_tx[SK_SCRIPT_MAX];
extern unsigned VERIF_sk_tx_steps;
extern unsigned VERIF_sk_tx_calls;
extern unsigned VERIF_sk_tx_overrun;
extern u8 VERIF_sk_out[SK_OUT_MAX];  /* bytes accepted by send(), in order */
extern size_t VERIF_sk_out_len;
extern unsigned VERIF_sk_out_overflow;
extern const void *VERIF_sk_tx_req_buf[SK_SCRIPT_MAX];
extern size_t VERIF_sk_tx_req_len[SK_SCRIPT_MAX];

/* ---- clock ---- */
extern time_t VERIF_sk_now;          /* current time; every time() call advances it by a symbolic step >= 0 */
extern unsigned VERIF_sk_time_calls;
extern int VERIF_sk_time_mode;       /* SK_MODE_ND (default): symbolic steps; SK_MODE_SCRIPT: every call adds VERIF_sk_time_step */
extern long VERIF_sk_time_step;

void VERIF_sk_reset(void);
#endif
