/* C19 H-7: KSI_SignatureBuilder_close (signature_builder.c, real, included) - failure atomicity and repeatability.
 * This is a GATE harness: the "fault" is the symbolic failure of a stubbed callee (KSI_VerificationContext_init, list sort,
 * KSI_TLV_new, KSI_TlvTemplate_construct, KSI_Signature_clone, KSI_SignatureVerifier_verify - each returns an arbitrary
 * status, e.g. KSI_OUT_OF_MEMORY from an allocation failing inside it), not a counted allocation as in c19.h.
 * KSI_TlvTemplate_construct may have attached children to the TLV it was given before it fails: ghost flag `partial`.
 * TLV objects are models (tlv.c is not linked): a static pool, each with a release counter (double release = CHECK failure).
 * PRE_TLV=0: builder opened from scratch (sig->baseTlv == NULL, close has to construct the element);
 * PRE_TLV=1: baseTlv installed before close (openFromSignature / openFromAggregationResp path) - it must never be released.
 * For ALL combinations of callee outcomes, verification on / off (noVerify), rootLevel 0:
 *  (1) a failed close leaves builder->sig->baseTlv exactly as it was before the call (NULL stays NULL and the TLV created in
 *      this call is released exactly once; a pre-existing one is untouched), *sig untouched, builder->sig still the builder's;
 *  (2) a second close on the same builder with every callee succeeding constructs again on a FRESH TLV and returns KSI_OK
 *      with a signature whose element is that completely constructed TLV ("repeating the operation without the fault gives
 *      the fault-free result");
 *  (3) on success the signature moves to the caller (builder->sig == NULL), its element is complete, nothing released twice,
 *      the verification clone and result are released exactly once. */
#include "verif.h"
#include "internal.h"
#include "tlv.h"
#include "tlv_template.h"
#include "hashchain.h"
#include "net.h"
#include "policy.h"
#include "signature.h"
#include "signature_builder.h"
#include "impl/signature_impl.h"
#include "impl/signature_builder_impl.h"
#include "impl/policy_impl.h"
#include "ctx.h"
#include "verif_post.h"

#ifndef PRE_TLV
#define PRE_TLV 0
#endif

/* ---- TLV model ---- */
struct KSI_TLV_st { unsigned tag; int handed_out, partial, complete; unsigned released; };
#define NPOOL 3
static KSI_TLV pool[NPOOL]; static unsigned n_tlv_new;
static KSI_TLV pre_tlv;
static int g_force_ok;          /* second round: every callee succeeds */
static int g_double_release;
#define ST(tag) (g_force_ok ? KSI_OK : ND(int, tag))

int KSI_TLV_new(KSI_CTX *ctx, unsigned tag, int isLenient, int isForward, KSI_TLV **tlv) {
	(void)ctx; (void)isLenient; (void)isForward;
	unsigned k = n_tlv_new < NPOOL ? n_tlv_new : NPOOL - 1;
	n_tlv_new++;
	int s = ST(tlv_new_status); if (s != KSI_OK) return s;
	pool[k].tag = tag; pool[k].handed_out = 1; *tlv = &pool[k]; return KSI_OK;
}
void KSI_TLV_free(KSI_TLV *t) { if (t != NULL) { if (t->released) g_double_release = 1; t->released++; } }
static unsigned n_construct; static KSI_TLV *construct_tlv[2]; static const void *construct_obj[2];
int KSI_TlvTemplate_construct(KSI_CTX *ctx, KSI_TLV *tlv, const void *payload, const KSI_TlvTemplate *tmpl) {
	(void)ctx; (void)tmpl;
	unsigned k = n_construct < 2 ? n_construct : 1;
	n_construct++; construct_tlv[k] = tlv; construct_obj[k] = payload;
	int s = ST(construct_status);
	if (s != KSI_OK) { if (ND_BOOL(children_attached_before_failure)) tlv->partial = 1; return s; }
	tlv->complete = 1; return KSI_OK;
}
/* ---- verification side ---- */
static KSI_Signature clone_obj; static unsigned n_clone, clone_released;
int KSI_Signature_clone(const KSI_Signature *sig, KSI_Signature **clone) { (void)sig; n_clone++; int s = ST(clone_status); if (s != KSI_OK) return s; clone_obj.ref = 1; *clone = &clone_obj; return KSI_OK; }
static KSI_Signature S;
void KSI_Signature_free(KSI_Signature *sig) { if (sig == &clone_obj) clone_released++; else __CPROVER_assert(sig == NULL, "CHECK C19.H7 close never releases the signature under construction"); }
static KSI_PolicyVerificationResult result_obj; static unsigned n_verify, result_released;
static KSI_Policy internal_policy_obj;
const KSI_Policy *KSI_VERIFICATION_POLICY_INTERNAL = &internal_policy_obj;
int KSI_SignatureVerifier_verify(const KSI_Policy *policy, KSI_VerificationContext *context, KSI_PolicyVerificationResult **result) {
	n_verify++;
	__CPROVER_assert(policy == &internal_policy_obj && context->signature == &clone_obj, "CHECK C19.H7 the clone is verified with the internal policy");
	int s = ST(verify_status); if (s != KSI_OK) return s;
	result_obj.ref = 1;
	result_obj.finalResult.resultCode = g_force_ok ? KSI_VER_RES_OK : (KSI_VerificationResultCode)ND(int, verify_result_code);
	*result = &result_obj; return KSI_OK;
}
void KSI_PolicyVerificationResult_free(KSI_PolicyVerificationResult *r) { if (r != NULL) result_released++; }
int KSI_VerificationContext_init(KSI_VerificationContext *context, KSI_CTX *ctx) { memset(context, 0, sizeof(*context)); context->ctx = ctx; return ST(vctx_init_status); }
void KSI_VerificationContext_clean(KSI_VerificationContext *context) { (void)context; }
int KSI_AggregationHashChain_compare(const KSI_AggregationHashChain **l, const KSI_AggregationHashChain **r) { (void)l; (void)r; return 0; }
/* the aggregation chain list is not the subject: one chain, sorting has a symbolic outcome */
static unsigned n_sort; static void *sorted_list;
static int c19_sort(void *lst) { n_sort++; sorted_list = lst; return ST(sort_status); }
#undef KSI_AggregationHashChainList_sort
#define KSI_AggregationHashChainList_sort(lst, cmp) c19_sort(lst)
#undef KSI_AggregationHashChainList_length
#define KSI_AggregationHashChainList_length(lst) ((size_t)1)

#include "signature_builder.c"

void harness(void) {
	VERIF_ctx_init();
	KSI_CTX *ctx = VERIF_ctx;
	static KSI_SignatureBuilder B; static int chain_list_dummy;
	memset(&S, 0, sizeof(S)); S.ctx = ctx; S.ref = 1;
	S.aggregationChainList = (void *)&chain_list_dummy;
	KSI_TLV *before = PRE_TLV ? &pre_tlv : NULL;
	S.baseTlv = before;
	B.ctx = ctx; B.sig = &S; B.aggrStartLevel = 0; B.noVerify = ND_BOOL(no_verify);
	KSI_Signature *marker = (KSI_Signature *)&chain_list_dummy, *out = marker;

	/* ---- round 1: arbitrary callee outcomes ---- */
	int res = KSI_SignatureBuilder_close(&B, 0, &out);

	CHECK(!g_double_release, "C19.H7 no TLV is released twice");
	CHECK(pre_tlv.released == 0 && !pre_tlv.partial, "C19.H7 an element installed before close is never released or rebuilt");
	CHECK(clone_released == (n_clone && clone_obj.ref ? 1u : 0u) && result_released <= 1 && (result_obj.ref == 0 || result_released == 1), "C19.H7 the verification clone and result are released exactly once");
	if (res == KSI_OK) {
		CHECK(out == &S && B.sig == NULL, "C19.H7 on success the signature moves to the caller and the builder no longer owns it");
		/* (C01: every rule of the internal policy takes element 0 of the chain list for the chain with the longest index) */
		CHECK(n_sort >= 1 && sorted_list == (void *)&chain_list_dummy, "C01/C19.H7 every successful close has put the signature's aggregation chains in order (parsed and scratch-built signatures alike)");
#if PRE_TLV
		CHECK(S.baseTlv == &pre_tlv && n_tlv_new == 0 && n_construct == 0, "C19.H7 an element installed before close is kept as it is");
#else
		CHECK(S.baseTlv == &pool[0] && pool[0].complete && !pool[0].partial && pool[0].released == 0 && pool[0].tag == 0x800 && construct_obj[0] == &S, "C19.H7 on success the signature carries the completely constructed 0x800 element");
#endif
		if (!B.noVerify) { CHECK(n_clone == 1 && n_verify == 1 && result_obj.finalResult.resultCode == KSI_VER_RES_OK, "C19.H7 with verification on, success needs a positive internal verification of a clone"); WITNESS_POINT("closed with internal verification"); }
		else WITNESS_POINT("closed without verification");
		return;
	}
	CHECK(out == marker, "C19.H7 a failed close does not touch *sig");
	CHECK(B.sig == &S && S.ref == 1, "C19.H7 after a failed close the builder still owns the signature under construction");
	CHECK(S.baseTlv == before, "C19.H7 a failed close leaves the signature's element as it was (a half-built element is not kept)");
#if !PRE_TLV
	CHECK(!pool[0].handed_out || pool[0].released == 1, "C19.H7 the element created by the failed close is released exactly once");
	if (pool[0].partial) WITNESS_POINT("construction failed after children were attached: element released");
	if (pool[0].complete && pool[0].released == 1) WITNESS_POINT("failure after a complete construction (clone / verify): element released");
#else
	WITNESS_POINT("failed close with a pre-installed element");
#endif

	/* ---- round 2: the same operation again, nothing fails ---- */
	unsigned tlv_calls_before = n_tlv_new, construct_calls_before = n_construct;
	int r1_handed_out = pool[0].handed_out;      /* did the failed attempt get as far as creating its element? */
	g_force_ok = 1;
	res = KSI_SignatureBuilder_close(&B, 0, &out);
	CHECK(res == KSI_OK && out == &S && B.sig == NULL, "C19.H7 repeating close without a fault succeeds and hands out the signature");
#if PRE_TLV
	CHECK(S.baseTlv == &pre_tlv && pre_tlv.released == 0 && n_construct == construct_calls_before, "C19.H7 the repeated close keeps the pre-installed element");
#else
	{
		KSI_TLV *t = S.baseTlv;
		CHECK(n_tlv_new == tlv_calls_before + 1 && n_construct == construct_calls_before + 1, "C19.H7 the repeated close constructs the element again");
		CHECK(t != NULL && t == &pool[tlv_calls_before] && (!r1_handed_out || t != &pool[0]) && t->complete && !t->partial && t->released == 0 && t->tag == 0x800, "C19.H7 the repeated close yields a fresh, completely constructed, live 0x800 element (the fault-free result)");
		CHECK(!r1_handed_out || pool[0].released == 1, "C19.H7 the element of the failed attempt stays released exactly once");
	}
#endif
	CHECK(!g_double_release, "C19.H7 no TLV is released twice in the repeated close");
}
