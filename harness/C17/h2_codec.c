/* C17 H-2: the bit packers of base32.c against a reference packer written from RFC 4648.
 *
 * MODE 1 (addBits): NSYM symbolic 5-bit values are fed to addBits exactly as KSI_base32Decode's loop does
 *   (zeroed buffer of floor(5*len/8)+2 bytes, running bit count).  Afterwards the bit count is 5*NSYM and byte i
 *   of the buffer = bits 8i..8i+7 of the concatenated values (most significant bit first) for every complete byte;
 *   a negative value (the decoder's "no bits" marker) changes nothing.
 *   (The decoder loop as a whole cannot be run on a string of symbolic characters: each character is a possible
 *   '=' / '-' / foreign byte for symbolic execution, see h1_alphabet.c, which covers the loop's character
 *   dispatch with one symbolic byte per string.)
 * MODE 2 (encode): NDATA symbolic bytes, group length GROUP.  KSI_base32Encode returns a NUL-terminated string
 *   inside its buffer; data symbol j = bits 5j..5j+4 of the data, zero padded (readNextBits), written in the
 *   RFC 4648 alphabet; a '-' follows every GROUP-th data symbol when another data symbol follows; after the
 *   data symbols come exactly as many '=' as are needed to make the number of symbols a multiple of 8 (RFC 4648
 *   padding; where dashes go inside the padding is specified nowhere and is not compared).
 *   Round trip at packer level: the alphabet values of the encoder's own output characters, fed to addBits,
 *   reproduce exactly the NDATA bytes (decode o encode = id).
 * Lengths are concrete per instance, all data symbolic. */
#include "verif.h"
#include "internal.h"
#include "base32.h"
#include "ctx.h"
#include "verif_post.h"
#include "c17_ref.h"
#include "base32.c"

#ifndef MODE
#define MODE 1
#endif
#ifndef GROUP
#define GROUP 6
#endif

#if MODE == 1
#ifndef NSYM
#define NSYM 8
#endif
#define NOUT ((NSYM * 5) / 8)
void harness(void) {
	u8 val[NSYM];
	unsigned char buf[NOUT + 2];          /* as allocated by the decoder: len * 5 / 8 + 2 */
	int bits = 0;
	for (unsigned i = 0; i < NOUT + 2; i++) buf[i] = 0;
	for (unsigned j = 0; j < NSYM; j++) {
		val[j] = ND(u8, sym); ASSUME(val[j] < 32);
		addBits(buf, &bits, val[j]);
		if (j == NSYM / 2) { addBits(buf, &bits, -1); }   /* "no bits": must not change anything */
	}
	CHECK(bits == 5 * NSYM, "C17.H2 every symbol adds exactly five bits");
	for (unsigned i = 0; i < NOUT; i++)
		CHECK(buf[i] == c17_stream_byte(val, i), "C17.H2 packed byte i = bits 8i..8i+7 of the symbol stream");
	if ((val[0] & 1) == 1 && (val[NSYM - 1] & 16) == 16) WITNESS_POINT("symbols packed");
}
#else
#ifndef NDATA
#define NDATA 5
#endif
#define S_DATA ((8 * NDATA + 4) / 5)                 /* data symbols */
#define S_TOTAL (((S_DATA) + 7) / 8 * 8)             /* with padding */
#define MAXSTR (2 * S_TOTAL + 2)
void harness(void) {
	VERIF_ctx_init();
	u8 *d = verif_buf_alloc(NDATA);
	for (unsigned i = 0; i < NDATA; i++) d[i] = ND(u8, data);
	char *enc = NULL;
	int res = KSI_base32Encode(d, NDATA, GROUP, &enc);
	CHECK(res == KSI_OK && enc != NULL, "C17.H2 non-empty data encodes");
	if (res != KSI_OK || enc == NULL) return;

	/* data part: S_DATA symbols, a dash after every GROUP-th one while more data symbols follow */
	unsigned k = 0;
	unsigned char back[(S_DATA * 5) / 8 + 2]; int bits = 0;
	for (unsigned i = 0; i < (S_DATA * 5) / 8 + 2; i++) back[i] = 0;
	for (unsigned j = 0; j < S_DATA; j++) {
		CHECK(enc[k] == c17_sym_char(c17_data_symbol(d, NDATA, j)), "C17.H2 data symbol j = bits 5j..5j+4 of the data in the RFC 4648 alphabet");
		addBits(back, &bits, c17_sym_value((unsigned char)enc[k]));
		k++;
		if (GROUP > 0 && (j + 1) % (GROUP > 0 ? GROUP : 1) == 0 && j + 1 < S_DATA) {
			CHECK(enc[k] == '-', "C17.H2 a dash follows every full group of data symbols");
			k++;
		}
	}
	/* padding part: '=' up to a multiple of 8 symbols, dashes anywhere, then NUL */
	unsigned pads = 0; int ended = 0;
	for (unsigned q = 0; q < MAXSTR; q++) {
		if (!ended) {
			char c = enc[k + q];
			if (c == 0) ended = 1;
			else if (c == '=') pads++;
			else CHECK(c == '-', "C17.H2 after the data symbols only '=' and '-' follow");
		}
	}
	CHECK(ended, "C17.H2 encoded string is terminated");
	CHECK(pads == S_TOTAL - S_DATA, "C17.H2 padded with '=' to a multiple of 8 symbols");

	/* decode o encode = id (packer level) */
	CHECK(bits / 8 == NDATA, "C17.H2 the symbols of encode(d) carry exactly the bytes of d");
	for (unsigned i = 0; i < NDATA; i++) CHECK(back[i] == d[i], "C17.H2 unpacking the encoder's symbols returns d");
	if ((d[0] & 0xf0) == 0xa0 && (d[NDATA - 1] & 0x0f) == 0x01) WITNESS_POINT("data encoded and unpacked");
	KSI_free(enc); verif_buf_free(d, NDATA);
}
#endif
