/* see pki_model.h */
#include "pki_model.h"
#include "verif.h"

struct pki_raw_call VERIF_pki_raw;
int VERIF_pki_raw_verdict;
unsigned VERIF_pki_cert_frees;

void VERIF_pki_init(void) {
	memset(&VERIF_pki_raw, 0, sizeof(VERIF_pki_raw));
	VERIF_pki_raw_verdict = KSI_OK;
	VERIF_pki_cert_frees = 0;
}

KSI_PKICertificate *VERIF_pki_mk_cert(KSI_CTX *ctx, KSI_uint64_t notBefore, KSI_uint64_t notAfter) {
	KSI_PKICertificate *c = (KSI_PKICertificate *)malloc(sizeof(KSI_PKICertificate));
	ASSUME(c != NULL);
	c->ctx = ctx; c->notBefore = notBefore; c->notAfter = notAfter;
	return c;
}

/* pkitruststore_openssl.c:520 pki_certificate_getValidityTime: INVALID_ARGUMENT on NULL, else the time of the certificate */
int KSI_PKICertificate_getValidityNotBefore(const KSI_PKICertificate *cert, KSI_uint64_t *time) {
	if (cert == NULL || time == NULL) return KSI_INVALID_ARGUMENT;
	*time = cert->notBefore;
	return KSI_OK;
}
int KSI_PKICertificate_getValidityNotAfter(const KSI_PKICertificate *cert, KSI_uint64_t *time) {
	if (cert == NULL || time == NULL) return KSI_INVALID_ARGUMENT;
	*time = cert->notAfter;
	return KSI_OK;
}
void KSI_PKICertificate_free(KSI_PKICertificate *cert) {
	if (cert != NULL) { VERIF_pki_cert_frees++; free(cert); }
}

/* pkitruststore_openssl.c:1023: argument checks as there; the cryptographic verdict is the oracle's */
int KSI_PKITruststore_verifyRawSignature(KSI_CTX *ctx, const unsigned char *data, size_t data_len, const char *algoOid,
		const unsigned char *signature, size_t signature_len, const KSI_PKICertificate *certificate) {
	if (ctx == NULL || data == NULL || signature == NULL || algoOid == NULL || certificate == NULL) return KSI_INVALID_ARGUMENT;
	VERIF_pki_raw.calls++;
	VERIF_pki_raw.data_len = data_len;
	VERIF_pki_raw.data_overflow = data_len > PKI_DATA_MAX;
	for (unsigned i = 0; i < PKI_DATA_MAX; i++) if (i < data_len) VERIF_pki_raw.data[i] = data[i];
	VERIF_pki_raw.oid = algoOid;
	VERIF_pki_raw.sig = signature; VERIF_pki_raw.sig_len = signature_len;
	VERIF_pki_raw.cert = certificate;
	return VERIF_pki_raw_verdict;
}
