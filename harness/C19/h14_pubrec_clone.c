/* C19 H-14a: KSI_PublicationRecord_clone (publicationsfile.c, real) under allocation failure (c19.h conventions: the
 * FAULT_AT-th allocation of the faulted call fails, FAULT_AT concrete per instance, 0 = fault-free).
 * Record: published data (time symbolic >= 256, SHA-1 sized imprint with symbolic digest), NREF publication
 * references (concrete text), one repository URI.  Real: publicationsfile.c, types_base.c (included: the reference
 * counters of KSI_Utf8String / KSI_Integer are private to it), hash.c, list.c.
 * Allocations of the clone: record, reference list (2), [first append: element array], published data
 *   = 4 (NREF = 0) or 5 (NREF >= 1); NALLOC + 1 proves that there is no further one.
 * Decided by CBMC (and ASan / LeakSanitizer in the native replay):
 *   - error or the fault-free result; on error the output pointer is untouched;
 *   - the SOURCE record is unchanged and every object it shares keeps reference count 1 after a failed call
 *     (a leaked reference would keep the string / imprint / time alive for ever: leak check is on as well);
 *   - the call repeated without fault succeeds: same time, same imprint, the same reference strings in the same order;
 *   - clone(s) and source released in either order: no double free, no use after free, no leak.
 * Values < 256 of the time are excluded: KSI_Integer_new serves them from a static pool without allocating, so the
 * allocation index would no longer be determined by the shape (pool identity is C18 h3_int's subject).
 *
 * GENUINE DEFECT found by r1_k4 / r2_k4 (the element array of the new reference list cannot be allocated): the error branch
 * (publicationsfile.c:1405-1407, "Cleanup the reference.") calls KSI_Utf8String_ref(ref) a SECOND time instead of releasing the
 * reference: the string ends with reference count 3 and one owner, so it (object + text buffer) is never released once the
 * source record is freed.  Reproduces in the native ASan/LSan replay.  Minimal patch = h14_pubrec_clone_fix.diff
 * (`KSI_Utf8String_ref(ref)` -> `KSI_Utf8String_free(ref)`); with it all 20 instances pass (VERIF_REPO=scratch worktree).
 * MUTATIONS caught (scratch worktree, on top of the fix, each reverted afterwards):
 *   M1 clone: `time = KSI_Integer_ref(..)` replaced by a plain pointer copy        => reference-count checks, use after free (every instance)
 *   M2 clone: cleanup no longer releases tmp                                        => leak (k2..k5), reference-count checks (k5) */
#include "c19.h"
#include "publicationsfile.h"
#include "impl/publicationsfile_impl.h"
#include "impl/hash_impl.h"
#include "hash_model.h"
#include "verif_post.h"
#include "types_base.c"

#ifndef NREF
#define NREF 1
#endif
#if NREF == 0
#define NALLOC 4
#else
#define NALLOC 5
#endif
#define MAXREF 2
#define DL 20

void KSI_TLV_free(KSI_TLV *t) { CHECK(t == NULL, "C19.H14a stub: no TLV object exists in this scenario"); }
/* template engine / TLV codec entry points referenced by types_base.c's fromTlv/toTlv are never reached here */

static KSI_Utf8String *refs[MAXREF];
static int same_content(const KSI_PublicationRecord *c, u64 T, const u8 *d) {
	int ok = c != NULL && c->publishedData != NULL && c->publishedData->time != NULL && c->publishedData->imprint != NULL;
	if (!ok) return 0;
	if (KSI_Integer_getUInt64(c->publishedData->time) != T) ok = 0;
	const unsigned char *imp = NULL; size_t il = 0;
	if (KSI_DataHash_getImprint(c->publishedData->imprint, &imp, &il) != KSI_OK || il != DL + 1 || imp[0] != KSI_HASHALG_SHA1) return 0;
	for (unsigned i = 0; i < DL; i++) if (imp[1 + i] != d[i]) ok = 0;
	if (KSI_Utf8StringList_length(c->publicationRef) != NREF) ok = 0;
	for (unsigned i = 0; i < MAXREF; i++) if (i < NREF) {
		KSI_Utf8String *s = NULL;
		if (KSI_Utf8StringList_elementAt(c->publicationRef, i, &s) != KSI_OK || s != refs[i]) ok = 0;
	}
	return ok;
}

void harness(void) {
	VERIF_ctx_init(); VERIF_hm_init(0); KSI_CTX *ctx = VERIF_ctx; int res;
	/* ---- set-up, fault-free ---- */
	u64 T = ND(u64, pub_time); ASSUME(T >= 256);
	u8 d[DL]; for (unsigned i = 0; i < DL; i++) d[i] = ND(u8, pub_digest);
	KSI_PublicationRecord *rec = NULL; KSI_PublicationData *pd = NULL; KSI_Integer *ti = NULL; KSI_DataHash *h = NULL;
	res = KSI_PublicationRecord_new(ctx, &rec); ASSUME(res == KSI_OK);
	res = KSI_PublicationData_new(ctx, &pd); ASSUME(res == KSI_OK);
	/* private heap object (what KSI_Integer_new builds for values >= 256): a symbolic value handed to KSI_Integer_new makes
	 * the result a symbolic pointer into the 256-entry static pool for CBMC (see C18 h3_lookup) */
	ti = malloc(sizeof(*ti)); ASSUME(ti != NULL); ti->ref = 1; ti->value = T;
	res = KSI_DataHash_fromDigest(ctx, KSI_HASHALG_SHA1, d, DL, &h); ASSUME(res == KSI_OK);
	res = KSI_PublicationData_setTime(pd, ti); ASSUME(res == KSI_OK);
	res = KSI_PublicationData_setImprint(pd, h); ASSUME(res == KSI_OK);
	res = KSI_PublicationRecord_setPublishedData(rec, pd); ASSUME(res == KSI_OK);
	{
		KSI_LIST(KSI_Utf8String) *rl = NULL, *ul = NULL; KSI_Utf8String *u = NULL;
		res = KSI_Utf8StringList_new(&rl); ASSUME(res == KSI_OK);
		for (unsigned i = 0; i < MAXREF; i++) if (i < NREF) {
			res = KSI_Utf8String_new(ctx, i == 0 ? "r0" : "r1", 3, &refs[i]); ASSUME(res == KSI_OK);
			res = KSI_Utf8StringList_append(rl, refs[i]); ASSUME(res == KSI_OK);
		}
		res = KSI_PublicationRecord_setPublicationRefList(rec, rl); ASSUME(res == KSI_OK);
		res = KSI_Utf8StringList_new(&ul); ASSUME(res == KSI_OK);
		res = KSI_Utf8String_new(ctx, "u", 2, &u); ASSUME(res == KSI_OK);
		res = KSI_Utf8StringList_append(ul, u); ASSUME(res == KSI_OK);
		res = KSI_PublicationRecord_setRepositoryUriList(rec, ul); ASSUME(res == KSI_OK);
	}

	/* ---- the faulted call ---- */
	static KSI_PublicationRecord sentinel_obj;    /* a well-typed object: a cast of some other object's address makes every (infeasible) use of it a wild access for CBMC */
	KSI_PublicationRecord *const untouched = &sentinel_obj;
	KSI_PublicationRecord *c1 = untouched, *c2 = NULL;
	C19_ARM();
	res = KSI_PublicationRecord_clone(rec, &c1);
	C19_DISARM();
	C19_OUTCOME(res, c1 != untouched && c1 != rec && same_content(c1, T, d));
	if (res != KSI_OK) {
		CHECK(c1 == untouched, "C19.H14a a failed clone leaves the output pointer untouched");
		int refs_ok = (rec->ref == 1 && pd->ref == 1 && ti->ref == 1 && h->ref == 1);
		for (unsigned i = 0; i < MAXREF; i++) if (i < NREF && refs[i]->ref != 1) refs_ok = 0;
		CHECK(refs_ok, "C19.H14a a failed clone holds no reference to any object of the source record");
	} else {
		int refs_ok = (rec->ref == 1 && pd->ref == 1 && ti->ref == 2 && h->ref == 2);
		for (unsigned i = 0; i < MAXREF; i++) if (i < NREF && refs[i]->ref != 2) refs_ok = 0;
		CHECK(refs_ok, "C19.H14a a clone holds exactly one reference to each shared object of the source record");
	}
	if (res != KSI_OK || c1 == untouched) c1 = NULL;     /* (never hand the sentinel to a destructor, even on a path where a CHECK has failed) */
	CHECK(rec->publishedData == pd && pd->time == ti && pd->imprint == h && KSI_Utf8StringList_length(rec->publicationRef) == NREF
		&& KSI_Utf8StringList_length(rec->repositoryUriList) == 1 && same_content(rec, T, d), "C19.H14a the source record is unchanged by the (failed) clone");

	/* ---- the same call without fault ---- */
	res = KSI_PublicationRecord_clone(rec, &c2);
	CHECK(res == KSI_OK && c2 != NULL && c2 != rec && c2 != c1 && same_content(c2, T, d), "C19.H14a clone repeated without fault gives the fault-free result");
	{
		unsigned live = 1 + (c1 != NULL) + (c2 != NULL);
		int refs_ok = (ti->ref == live && h->ref == live);
		for (unsigned i = 0; i < MAXREF; i++) if (i < NREF && refs[i]->ref != live) refs_ok = 0;
		CHECK(refs_ok, "C19.H14a reference counts = number of live records sharing the object (nothing left over from the failed call)");
	}

	/* ---- release: order chosen by the solver ---- */
	if (ND_BOOL(free_source_first)) { KSI_PublicationRecord_free(rec); KSI_PublicationRecord_free(c1); KSI_PublicationRecord_free(c2); }
	else { KSI_PublicationRecord_free(c2); KSI_PublicationRecord_free(c1); KSI_PublicationRecord_free(rec); }
	WITNESS_POINT("clone scenario finished");
#if FAULT_AT >= 1 && FAULT_AT <= NALLOC
	if (VERIF_fault_hit && res == KSI_OK) WITNESS_POINT("fault was injected and the repeated call succeeded");
#elif FAULT_AT > NALLOC
	CHECK(!VERIF_fault_hit, "C19.H14a the enumeration of allocation indices is complete (no allocation beyond NALLOC)");
#endif
}
