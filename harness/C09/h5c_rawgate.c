/* C09 H-5c: the raw-payload gate of the tree codec, decided on a symbolic payload LENGTH 0..70000:
 * KSI_TLV_setRawValue followed by serialisation (length-query mode, buf == NULL: same length / header arithmetic,
 * nothing copied).  A payload the 16-bit length field cannot express (> 65535) must be refused by one of the two
 * steps - never serialised with a wrapped length - and every payload up to 65535 bytes is accepted by both, with
 * the shortest header.  The copy inside setRawValue is replaced by a bounds-checking no-op (the length is symbolic;
 * the bytes copied are the subject of H-5, not of this harness): source readable and destination writable for the
 * whole length are proof obligations. */
#include "verif.h"
#include "internal.h"
#include "tlv.h"
#include "ctx.h"
#include "verif_post.h"
#ifndef REPLAY
void *memcpy(void *d, const void *s, size_t n) {
	__CPROVER_assert(__CPROVER_w_ok(d, n), "C09.H5c copy destination holds the whole payload");
	__CPROVER_assert(__CPROVER_r_ok(s, n), "C09.H5c copy source holds the whole payload");
	return d;
}
#endif
#include "tlv.c"
#define SRC_MAX 70000
static unsigned char src[SRC_MAX];
void harness(void) {
	VERIF_ctx_init(); KSI_CTX *ctx = VERIF_ctx; int res;
	unsigned tag = ND(unsigned, tag); ASSUME(tag <= 0x1fff);
	size_t len = ND(size_t, len); ASSUME(len <= SRC_MAX);
	KSI_TLV *t = NULL;
	res = KSI_TLV_new(ctx, tag, 0, 0, &t); ASSUME(res == KSI_OK);
	int r1 = KSI_TLV_setRawValue(t, src, len);
	size_t out = 0; int r2 = KSI_UNKNOWN_ERROR;
	if (r1 == KSI_OK) r2 = KSI_TLV_serialize_ex(t, NULL, 0, &out);
	if (len > 0xffff) {
		CHECK(r1 != KSI_OK || r2 != KSI_OK, "C09.H5c a raw payload the 16-bit length field cannot express is refused, not serialised with a wrapped length");
		if (len == 0x10000) WITNESS_POINT("payload of exactly 65536 bytes");
	} else {
		size_t h = (tag <= 0x1f && len <= 0xff) ? 2 : 4;
		CHECK(r1 == KSI_OK && r2 == KSI_OK && out == h + len, "C09.H5c raw payload up to 65535 bytes: accepted, length = shortest header + payload");
		if (len == 0xffff) WITNESS_POINT("payload of exactly 65535 bytes");
		if (len == 0) WITNESS_POINT("empty payload");
	}
	KSI_TLV_free(t);
}
