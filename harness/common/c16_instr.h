/* C16: observation of error exits for harnesses that #include tree_builder.c / blocksigner.c.
 * Include AFTER the libksi headers, verif_post.h and all harness helpers, directly BEFORE the repository .c text.
 *
 * tree_builder.c / blocksigner.c leave on failure in one of two ways: `KSI_pushError(ctx, res = X, ..); goto
 * cleanup;` or, for internal sanity tests, `res = KSI_INVALID_STATE / KSI_INVALID_ARGUMENT; goto cleanup;`
 * without a push.  The first kind is observed in KSI_ERR_push (env/ctx_expect.c).  For the second kind the
 * two status constants are re-defined below to the SAME values passed through c16_status(), which - while
 * VERIF_expect_no_error is set, i.e. while the harness' reference model says the operation must succeed -
 * reports the production of the status as a failed check and ends the path (assert-then-assume).  No
 * condition and no value of the analysed code changes.  Reason: CBMC merges the error state and the success
 * state at every cleanup label; after such a merge every pointer written on the success path is a guarded
 * pointer and symbolic execution explodes (measured: chains of a 3-leaf tree > 10 min, with the observation
 * seconds).  Soundness: a path is only cut after the assertion, so a reachable internal error while the
 * switch is on fails the run.  The constants are used by the two files only in `res = ...` statements on error
 * exits and in KSI_APPLY_TO_NOT_NULL's NULL arm (checked by grep; an initialiser would not compile). */
#ifndef C16_INSTR_H_
#define C16_INSTR_H_
extern int VERIF_expect_no_error;
enum { C16_V_INVALID_STATE = KSI_INVALID_STATE, C16_V_INVALID_ARGUMENT = KSI_INVALID_ARGUMENT };
static int c16_status(int code) {
	if (VERIF_expect_no_error) {
		CHECK(0, "C16.INSTR an internal error status is produced by an operation the reference model says must succeed");
		ASSUME(0);
	}
	return code;
}
#define KSI_INVALID_STATE c16_status(C16_V_INVALID_STATE)
#define KSI_INVALID_ARGUMENT c16_status(C16_V_INVALID_ARGUMENT)
#endif
