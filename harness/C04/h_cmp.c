/* C04 H-a (comparison): the rules that compare the calendar chain obtained from the extender (buffered in tempData by the
 * fetching rules, see h_ext.c) with the signature and with the anchor.  References from policy.h (CAL-01..04, PUB-01..03),
 * verification_rule.h and the property statement ("reproduces the anchor with the signature's own aggregation root,
 * aggregation time and right links"):
 *  GROUP 0 (calendar based)
 *   ExtendedSignatureCalendarChainRootHash         root(signature's calendar chain) == root(extender chain)             else FAIL CAL-01
 *   ExtendedSignatureCalendarChainRightLinksMatch  same number of right links and the same imprints in the same order      else FAIL CAL-04
 *   ExtendedSignatureCalendarChainInputHash        input hash of the extender chain == root of the aggregation chains     else FAIL CAL-02
 *   ExtendedSignatureCalendarChainAggregationTime  aggregation time of the extender chain (its publication time when the
 *                                                  element is absent) == aggregation time of the signature                else FAIL CAL-03
 *  GROUP 1 (user publication) / GROUP 2 (nearest publication of the publications file at/after the signing time)
 *   ...HashMatchesExtendedResponse / ...HashMatchesExtenderResponse     root(extender chain) == anchor hash               else FAIL PUB-01
 *   ...TimeMatchesExtendedResponse / ...TimeMatchesExtenderResponse     publication time of the chain == anchor time AND
 *                                                  aggregation time of the chain == signing time of the signature         else FAIL PUB-02
 *   ...ExtendedSignatureInputHash                                       as CAL-02                                         else FAIL PUB-03
 *  every rule: no buffered chain -> error status and NA.
 * Roots are what the hash model returned for the respective chain (variant U: the rule must compare exactly these values; that the
 * aggregator hashes the right bytes is C03).  When the aggregation chains cannot be aggregated at all (level out of range) only
 * "never OK" is asserted.
 * Shape: links per chain (1..2), calendar chain / aggregation-time elements present, records in the file.  Symbolic: directions,
 * all times, imprints, digests. */
#include "verif.h"
#include "internal.h"
#include "verification_rule.h"
#include "ctx.h"
#include "hash_model.h"
#include "verif_post.h"
#include "types_base.c"
#include "sig_builder.h"
#ifndef GROUP
#define GROUP 0
#endif
#if GROUP == 2
#define C04_WITH_PUBFILE 1
#endif
#define C04_WITH_EXT 1
#include "c04_builder.h"
/* secondary witness points are only compiled in the thorough tier (-DWITNESS_ALL): every witness costs a solver call plus a full trace */
#ifdef WITNESS_ALL
#define WITNESS_EXTRA(msg) WITNESS_POINT(msg)
#else
#define WITNESS_EXTRA(msg) ((void)0)
#endif
#ifndef BUFFERED
#define BUFFERED 1       /* 0: no chain in tempData */
#endif
#ifndef PARTS
#define PARTS 63         /* which rules this instance exercises: 1 aggregation time, 2 right links, 4 root, 8 anchor hash, 16 anchor time, 32 input hash */
#endif

#define IS(res_, r_, rc_, ec_) ((res_) == KSI_OK && (r_).resultCode == (rc_) && (r_).errorCode == (ec_))
#define IS_OK(res_, r_) IS(res_, r_, KSI_VER_RES_OK, KSI_VER_ERR_NONE)
#define IS_ERR(res_, r_) ((res_) != KSI_OK && (r_).resultCode == KSI_VER_RES_NA)

/* imprint (algorithm SHA-1 in every instance: concrete shape) of hash-model record k */
static int rec_eq_hash(unsigned k, const struct sb_hash_v *h) {
	if (h->len != 21 || h->imp[0] != (u8)VERIF_hm_rec[k].alg) return 0;
	int eq = 1;
	for (unsigned i = 0; i < 20; i++) if (VERIF_hm_rec[k].digest[i] != h->imp[1 + i]) eq = 0;
	return eq;
}
static int rec_eq_rec(unsigned a, unsigned b) {
	if (VERIF_hm_rec[a].alg != VERIF_hm_rec[b].alg) return 0;
	int eq = 1;
	for (unsigned i = 0; i < 20; i++) if (VERIF_hm_rec[a].digest[i] != VERIF_hm_rec[b].digest[i]) eq = 0;
	return eq;
}
/* first step of a calendar chain hashes input and first sibling in link order */
static int rec_is_first_step(unsigned k, const struct sb_hash_v *in, int isLeft, const struct sb_hash_v *sib) {
	const struct sb_hash_v *L = isLeft ? in : sib, *R = isLeft ? sib : in;
	if (VERIF_hm_rec[k].len != L->len + R->len + 1) return 0;
	int eq = 1;
	for (unsigned i = 0; i < 65; i++) {
		if (i < L->len && VERIF_hm_rec[k].msg[i] != L->imp[i]) eq = 0;
		if (i < R->len && VERIF_hm_rec[k].msg[L->len + i] != R->imp[i]) eq = 0;
	}
	return eq;
}

void harness(void) {
	VERIF_ctx_init();
	VERIF_hm_init(0);
	KSI_CTX *ctx = VERIF_ctx;
	sb_build(ctx);
#if SB_HAS_CAL && defined(SIG_DIRS)
	/* concrete direction pattern of the signature's calendar chain (bit l = link l is a left link) */
	for (unsigned l = 0; l < SB_CAL_NLINKS; l++) { sb_cal_link[l]->isLeft = ((SIG_DIRS) >> l) & 1; SB.cal.link[l].isLeft = (((SIG_DIRS) >> l) & 1) != 0; }
#endif
	c04_build_userpub(ctx);
#if GROUP == 2
	c04_build_pubfile(ctx);
#endif
#if BUFFERED
	sb_tmp.calendarChain = c04_mk_extcal(ctx, &C4.ext.cal);
#endif
	const struct c04_cal_v *E = &C4.ext.cal;
	KSI_RuleVerificationResult r;
	int res;
	u64 sig_aggr_time = SB.ch[0].aggrTime;                        /* "aggregation time of the signature": all chains agree (INT-02) */
	u64 signing = SB_HAS_CAL ? (SB_CAL_HAS_AGGRTIME ? SB.cal.aggrTime : SB.cal.pubTime) : SB.ch[0].aggrTime;

#if !BUFFERED
	/* ---- nothing buffered: every comparison refuses ---- */
#define REFUSES(rule) sb_result_init(&r); res = KSI_VerificationRule_##rule(&sb_vc, &r); CHECK(IS_ERR(res, r), "C04.Hcmp " #rule " without buffered chain: error status and NA")
#if GROUP == 0
#if SB_HAS_CAL
	REFUSES(ExtendedSignatureCalendarChainRootHash);
	REFUSES(ExtendedSignatureCalendarChainRightLinksMatch);
#endif
	REFUSES(ExtendedSignatureCalendarChainInputHash);
	REFUSES(ExtendedSignatureCalendarChainAggregationTime);
#elif GROUP == 1
	REFUSES(UserProvidedPublicationHashMatchesExtendedResponse);
	REFUSES(UserProvidedPublicationTimeMatchesExtendedResponse);
	REFUSES(UserProvidedPublicationExtendedSignatureInputHash);
#else
	REFUSES(PublicationsFilePublicationHashMatchesExtenderResponse);
	REFUSES(PublicationsFilePublicationTimeMatchesExtenderResponse);
	REFUSES(PublicationsFileExtendedSignatureInputHash);
#endif
	WITNESS_POINT("no buffered chain");
#else

	/* ============ aggregation time (no hashing) ============ */
#if GROUP == 0
#if PARTS & 1
	sb_result_init(&r);
	res = KSI_VerificationRule_ExtendedSignatureCalendarChainAggregationTime(&sb_vc, &r);
	{
		u64 ext_time = E->hasAggrTime ? E->aggrTime : E->pubTime;
		if (ext_time == sig_aggr_time) { CHECK(IS_OK(res, r), "C04.Hcmp CAL-03 rule: same aggregation time is OK"); WITNESS_EXTRA("CAL-03 rule OK"); }
		else { CHECK(IS(res, r, KSI_VER_RES_FAIL, KSI_VER_ERR_CAL_3), "C04.Hcmp another aggregation time in the extender chain yields FAIL CAL-03"); if (ext_time == sig_aggr_time + 1) WITNESS_POINT("CAL-03 one second off"); }
	}
#endif
#if SB_HAS_CAL && (PARTS & 2)
	/* ============ right links ============ */
#if !defined(SIG_DIRS) || !defined(C04_EXT_DIRS) || !defined(SIG_NRIGHT) || !defined(EXT_NRIGHT)
#error "right-link instances need concrete direction patterns SIG_DIRS / C04_EXT_DIRS and their right-link counts"
#endif
	sb_result_init(&r);
	res = KSI_VerificationRule_ExtendedSignatureCalendarChainRightLinksMatch(&sb_vc, &r);
	{
		/* right links (sibling on the left, isLeft == 0) of both chains, in order.  The reference enumerates the direction patterns of
		 * both chains (concrete masks, bit i = link i is a left link) so that every index below is concrete. */
		unsigned ds = 0, de = 0;
		for (unsigned i = 0; i < SB_CAL_NLINKS; i++) if (SB.cal.link[i].isLeft) ds |= 1u << i;
		for (unsigned i = 0; i < C04_EXT_NLINKS; i++) if (E->link[i].isLeft) de |= 1u << i;
		int match = 0; unsigned ns = 0, ne = 0;
		for (unsigned ms = 0; ms < (1u << SB_CAL_NLINKS); ms++) for (unsigned me = 0; me < (1u << C04_EXT_NLINKS); me++) {
			unsigned is[SB_MAXCAL], ie[SB_MAXCAL], cs = 0, ce = 0;
			for (unsigned i = 0; i < SB_CAL_NLINKS; i++) if (!(ms & (1u << i))) is[cs++] = i;
			for (unsigned i = 0; i < C04_EXT_NLINKS; i++) if (!(me & (1u << i))) ie[ce++] = i;
			int m = (cs == ce);
			for (unsigned k = 0; k < cs && k < ce; k++) if (!sb_hash_eq(&SB.cal.link[is[k]].sib, &E->link[ie[k]].sib)) m = 0;
			if (ds == ms && de == me) { match = m; ns = cs; ne = ce; }
		}
		CHECK(ns == SIG_NRIGHT && ne == EXT_NRIGHT, "C04.Hcmp (instance consistency) right link counts of the direction patterns");
		if (match) {
			CHECK(IS_OK(res, r), "C04.Hcmp identical right links are OK");
#if SIG_NRIGHT == EXT_NRIGHT && SIG_NRIGHT >= 1
			WITNESS_POINT("right links match");
#elif SIG_NRIGHT == EXT_NRIGHT
			WITNESS_POINT("no right links on either side");
#endif
		} else {
			CHECK(IS(res, r, KSI_VER_RES_FAIL, KSI_VER_ERR_CAL_4), "C04.Hcmp a different count or imprint of right links yields FAIL CAL-04");
#if SIG_NRIGHT != EXT_NRIGHT
			WITNESS_POINT("different number of right links");
#elif SIG_NRIGHT >= 1
			WITNESS_POINT("altered right link");
#endif
		}
	}
#endif
#if SB_HAS_CAL && (PARTS & 4)
	/* ============ root hash ============ */
	VERIF_hm_nrec = 0;
	sb_result_init(&r);
	res = KSI_VerificationRule_ExtendedSignatureCalendarChainRootHash(&sb_vc, &r);
	CHECK(VERIF_hm_overflow == 0 && VERIF_hm_nrec == SB_CAL_NLINKS + C04_EXT_NLINKS, "C04.Hcmp CAL-01 rule aggregates both chains (one hash per link)");
	CHECK(rec_is_first_step(0, &SB.cal.in, SB.cal.link[0].isLeft, &SB.cal.link[0].sib), "C04.Hcmp CAL-01 rule aggregates the signature's calendar chain from its input hash");
	CHECK(rec_is_first_step(SB_CAL_NLINKS, &E->in, E->link[0].isLeft, &E->link[0].sib), "C04.Hcmp CAL-01 rule aggregates the buffered extender chain from its input hash");
	if (rec_eq_rec(SB_CAL_NLINKS - 1, SB_CAL_NLINKS + C04_EXT_NLINKS - 1)) { CHECK(IS_OK(res, r), "C04.Hcmp equal calendar roots are OK"); WITNESS_POINT("CAL-01 rule OK"); }
	else { CHECK(IS(res, r, KSI_VER_RES_FAIL, KSI_VER_ERR_CAL_1), "C04.Hcmp another root in the extender chain yields FAIL CAL-01"); WITNESS_POINT("CAL-01"); }
#endif
#endif

	/* ============ the anchor ============ */
#if GROUP == 1 || GROUP == 2
	const struct c04_pub_v *A = NULL;
#if GROUP == 1
	A = &C4.up;
#else
	for (unsigned i = 0; i < C04_NPUB; i++) if (C4.pf[i].time >= signing && (A == NULL || C4.pf[i].time <= A->time)) A = &C4.pf[i];    /* ties: any, asserted below only when unique */
	int unique = 1;
	for (unsigned i = 0; i < C04_NPUB; i++) if (A != NULL && &C4.pf[i] != A && C4.pf[i].time == A->time) unique = 0;
#endif
#if PARTS & 8
	/* ============ root of the extender chain against the anchor hash ============ */
	VERIF_hm_nrec = 0;
	sb_result_init(&r);
#if GROUP == 1
	res = KSI_VerificationRule_UserProvidedPublicationHashMatchesExtendedResponse(&sb_vc, &r);
#else
	res = KSI_VerificationRule_PublicationsFilePublicationHashMatchesExtenderResponse(&sb_vc, &r);
#endif
	if (A == NULL || !A->hasImp) {
		CHECK(!(res == KSI_OK && r.resultCode == KSI_VER_RES_OK), "C04.Hcmp PUB-01 rule without anchor hash is never OK");
#if GROUP == 1 && C04_USERPUB != 1
		WITNESS_POINT("PUB-01 rule without anchor hash");
#endif
#if GROUP == 2
		CHECK(IS_ERR(res, r), "C04.Hcmp PUB-01 rule without suitable publication: error status and NA");
#endif
	}
#if GROUP == 2
	else if (!unique) { /* two records of the same time: malformed file, not asserted */ }
#endif
	else {
		CHECK(VERIF_hm_overflow == 0 && VERIF_hm_nrec == C04_EXT_NLINKS && rec_is_first_step(0, &E->in, E->link[0].isLeft, &E->link[0].sib), "C04.Hcmp PUB-01 rule aggregates the buffered extender chain");
		if (rec_eq_hash(C04_EXT_NLINKS - 1, &A->imp)) {
			CHECK(IS_OK(res, r), "C04.Hcmp extender root equal to the anchor hash is OK");
#if GROUP == 2 || C04_USERPUB == 1
			WITNESS_POINT("PUB-01 rule OK");
#endif
		} else {
			CHECK(IS(res, r, KSI_VER_RES_FAIL, KSI_VER_ERR_PUB_1), "C04.Hcmp extender root different from the anchor hash yields FAIL PUB-01");
#if GROUP == 2 || C04_USERPUB == 1
			WITNESS_POINT("PUB-01");
#endif
		}
	}
#endif
#if PARTS & 16
	/* ============ times ============ */
	sb_result_init(&r);
#if GROUP == 1
	res = KSI_VerificationRule_UserProvidedPublicationTimeMatchesExtendedResponse(&sb_vc, &r);
#else
	res = KSI_VerificationRule_PublicationsFilePublicationTimeMatchesExtenderResponse(&sb_vc, &r);
#endif
	if (A == NULL || !A->hasTime) {
		CHECK(IS_ERR(res, r), "C04.Hcmp PUB-02 rule without anchor time: error status and NA");
	} else if (E->pubTime != A->time) {
		CHECK(IS(res, r, KSI_VER_RES_FAIL, KSI_VER_ERR_PUB_2), "C04.Hcmp extender chain of another publication time yields FAIL PUB-02");
		WITNESS_EXTRA("PUB-02 publication time");
	} else {
#if C04_EXT_HAS_AGGRTIME
		if (E->aggrTime != signing) {
			CHECK(IS(res, r, KSI_VER_RES_FAIL, KSI_VER_ERR_PUB_2), "C04.Hcmp extender chain of another aggregation time than the signature's yields FAIL PUB-02");
			WITNESS_POINT("PUB-02 aggregation time");
		} else {
			CHECK(IS_OK(res, r), "C04.Hcmp extender chain with the anchor's publication time and the signature's aggregation time is OK");
			WITNESS_POINT("PUB-02 rule OK");
		}
#else
		/* chain without aggregation-time element (= publication time): see FINDINGS.md observation O2; only "no OK unless consistent" */
		if (E->pubTime != signing) CHECK(!(res == KSI_OK && r.resultCode == KSI_VER_RES_OK), "C04.Hcmp extender chain without aggregation time element and another time than the signature's is never OK");
		CHECK(res == KSI_OK && r.resultCode != KSI_VER_RES_NA, "C04.Hcmp PUB-02 rule decides on a chain without aggregation time element");
		WITNESS_POINT("PUB-02 rule on a chain without aggregation time element");
#endif
	}
#endif
#endif

#if PARTS & 32
	/* ============ input hash of the extender chain against the aggregation root ============ */
	VERIF_hm_nrec = 0;
	sb_result_init(&r);
#if GROUP == 0
	res = KSI_VerificationRule_ExtendedSignatureCalendarChainInputHash(&sb_vc, &r);
	const int code = KSI_VER_ERR_CAL_2;
#elif GROUP == 1
	res = KSI_VerificationRule_UserProvidedPublicationExtendedSignatureInputHash(&sb_vc, &r);
	const int code = KSI_VER_ERR_PUB_3;
#else
	res = KSI_VerificationRule_PublicationsFileExtendedSignatureInputHash(&sb_vc, &r);
	const int code = KSI_VER_ERR_PUB_3;
#endif
#if GROUP == 2
	if (A == NULL) { CHECK(IS_ERR(res, r), "C04.Hcmp PUB-03 rule without suitable publication: error status and NA"); } else
#endif
	if (sb_tmp.aggregationOutputHash == NULL) {
		/* the aggregation chains could not be aggregated (level out of range): internal verification would have failed before */
		CHECK(!(res == KSI_OK && r.resultCode == KSI_VER_RES_OK), "C04.Hcmp input hash rule is never OK when the aggregation root cannot be computed");
		WITNESS_EXTRA("aggregation root not computable");
	} else {
		CHECK(VERIF_hm_overflow == 0 && VERIF_hm_nrec == 1, "C04.Hcmp input hash rule aggregates the signature's aggregation chain (one link, one hash)");
		/* the hashed message starts with (or ends, after the sibling, with) the chain's own input hash */
		int own = 0;
		{ const struct sb_hash_v *I = &SB.ch[0].in; unsigned off = SB.ch[0].link[0].isLeft ? 0 : SB.ch[0].link[0].siblen; int e = 1;
		  for (unsigned i = 0; i < 65; i++) if (i < I->len && VERIF_hm_rec[0].msg[off + i] != I->imp[i]) e = 0;
		  own = e; }
		CHECK(own, "C04.Hcmp the aggregation root is computed from the signature's own input hash");
		if (rec_eq_hash(0, &E->in)) { CHECK(IS_OK(res, r), "C04.Hcmp extender chain starting from the aggregation root is OK"); WITNESS_EXTRA("input hash rule OK"); }
		else { CHECK(IS(res, r, KSI_VER_RES_FAIL, code), "C04.Hcmp extender chain starting from another input hash yields FAIL CAL-02 / PUB-03"); WITNESS_POINT("CAL-02 / PUB-03"); }
	}
#endif
#endif
}
