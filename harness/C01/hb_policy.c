/* C01 H-b: the REAL rule tables of policy.c (internalRules and everything below it) evaluated by the REAL
 * Rule_verify / Policy_verifySignature over a symbolic FACT VECTOR.  Every leaf rule is a stub
 * (common/rule_stubs.h) whose outcome is a function of the facts:
 *   presence facts  : document hash given, RFC3161 record, calendar chain, publication record, calendar auth record
 *   per condition   : HOLDS / VIOLATED / UNCOMPUTABLE   (21 conditions = the 21 verifying internal rules)
 * A verifying rule reports (KSI_OK, OK, none) when its condition holds, (KSI_OK, FAIL, its documented code) when
 * it is violated, and for UNCOMPUTABLE either an error status with NA, or (KSI_OK, NA, some code); presence rules
 * report OK / NA+no-error.  That each real rule behaves like this is the subject of the per-rule harnesses (H-a*).
 *
 * Oracle (written from the property text and the policy.h documentation of INT-01..17 / GEN-01..04):
 *   final OK  <=>  every APPLICABLE condition HOLDS, where applicability depends only on the presence facts;
 *   exactly one applicable condition VIOLATED, rest HOLD   => (KSI_OK, FAIL, documented code of that condition);
 *   exactly one applicable condition UNCOMPUTABLE, rest HOLD => error status or NA, never OK;
 *   FAIL always carries the code of some violated applicable condition.
 * Glue obligations for the decomposition: a rule is only called when the component it reads is present, and the
 * calendar input-hash rule is only called after the aggregation-chain consistency rule (tempData hand-over). */
#include "verif.h"
#include "internal.h"
#include "verification_rule.h"
#include "impl/policy_impl.h"
#include "ctx.h"
#include "verif_post.h"
#include "rule_stubs.h"
#include "policy.c"

enum { HOLDS = 0, VIOLATED = 1, UNCOMPUTABLE = 2 };

/*  id, rule that checks it, documented error code (policy.h), applicable when */
#define COND_LIST(X) \
	X(0,  InputHashAlgorithmVerification,                 KSI_VER_ERR_GEN_4,  docGiven) \
	X(1,  DocumentHashVerification,                       KSI_VER_ERR_GEN_1,  docGiven) \
	X(2,  AggregationChainInputLevelVerification,         KSI_VER_ERR_GEN_3,  1) \
	X(3,  AggregationChainInputHashAlgorithmVerification, KSI_VER_ERR_INT_13, 1) \
	X(4,  Rfc3161RecordHashAlgorithmVerification,         KSI_VER_ERR_INT_14, hasRfc) \
	X(5,  Rfc3161RecordOutputHashAlgorithmVerification,   KSI_VER_ERR_INT_17, hasRfc) \
	X(6,  AggregationChainInputHashVerification,          KSI_VER_ERR_INT_1,  hasRfc) \
	X(7,  AggregationChainMetaDataVerification,           KSI_VER_ERR_INT_11, 1) \
	X(8,  AggregationChainHashAlgorithmVerification,      KSI_VER_ERR_INT_15, 1) \
	X(9,  AggregationHashChainIndexContinuation,          KSI_VER_ERR_INT_12, 1) \
	X(10, AggregationHashChainTimeConsistency,            KSI_VER_ERR_INT_2,  1) \
	X(11, AggregationHashChainConsistency,                KSI_VER_ERR_INT_1,  1) \
	X(12, AggregationHashChainIndexConsistency,           KSI_VER_ERR_INT_10, 1) \
	X(13, CalendarHashChainInputHashVerification,         KSI_VER_ERR_INT_3,  hasCal) \
	X(14, CalendarHashChainAggregationTime,               KSI_VER_ERR_INT_4,  hasCal) \
	X(15, CalendarHashChainRegistrationTime,              KSI_VER_ERR_INT_5,  hasCal) \
	X(16, CalendarChainHashAlgorithmObsoleteAtPubTime,    KSI_VER_ERR_INT_16, hasCal) \
	X(17, SignaturePublicationRecordPublicationHash,      KSI_VER_ERR_INT_9,  hasPub) \
	X(18, SignaturePublicationRecordPublicationTime,      KSI_VER_ERR_INT_7,  hasPub) \
	X(19, CalendarAuthenticationRecordAggregationHash,    KSI_VER_ERR_INT_8,  hasAuth) \
	X(20, CalendarAuthenticationRecordAggregationTime,    KSI_VER_ERR_INT_6,  hasAuth)
#define NCOND 21

void harness(void) {
	VERIF_ctx_init();
	KSI_CTX *ctx = VERIF_ctx;

	/* ---- facts ---- */
	_Bool docGiven = ND_BOOL(docGiven), hasRfc = ND_BOOL(hasRfc), hasCal = ND_BOOL(hasCal), hasPub = ND_BOOL(hasPub), hasAuth = ND_BOOL(hasAuth);
	/* well-formed signature (signature_builder.c checkSignatureInternals, applied by every parser / builder path):
	 * no publication / calendar auth record without a calendar chain, never both */
	ASSUME(!(hasPub && hasAuth));
	ASSUME(hasCal || (!hasPub && !hasAuth));
	u8 st[NCOND]; int unc_res[NCOND]; int unc_ec[NCOND];
	for (int i = 0; i < NCOND; i++) {
		st[i] = ND(u8, cond_state); ASSUME(st[i] <= UNCOMPUTABLE);
		unc_res[i] = ND(int, unc_res);   /* status a rule returns when it cannot compute (KSI_OK allowed: "NA") */
		unc_ec[i] = ND(int, unc_ec);
	}

	/* ---- leaf rule outcomes as functions of the facts ---- */
	vr_havoc_all();   /* rules outside the internal policy stay arbitrary; they must never be called */
#define PRESENT(rule, present) VR_SET(rule, KSI_OK, (present) ? KSI_VER_RES_OK : KSI_VER_RES_NA, KSI_VER_ERR_NONE)
	PRESENT(DocumentHashDoesNotExist, !docGiven);
	PRESENT(DocumentHashExistence, docGiven);
	PRESENT(Rfc3161DoesNotExist, !hasRfc);
	PRESENT(Rfc3161Existence, hasRfc);
	PRESENT(CalendarHashChainDoesNotExist, !hasCal);
	PRESENT(CalendarHashChainExistence, hasCal);
	PRESENT(SignatureDoesNotContainPublication, !hasPub);
	PRESENT(SignaturePublicationRecordExistence, hasPub);
	PRESENT(CalendarAuthenticationRecordDoesNotExist, !hasAuth);
	PRESENT(CalendarAuthenticationRecordExistence, hasAuth);
#define X(id, rule, code, app) \
	if (!(app) || st[id] == HOLDS) VR_SET(rule, KSI_OK, KSI_VER_RES_OK, KSI_VER_ERR_NONE); \
	else if (st[id] == VIOLATED) VR_SET(rule, KSI_OK, KSI_VER_RES_FAIL, code); \
	else VR_SET(rule, unc_res[id], KSI_VER_RES_NA, unc_ec[id]);
	COND_LIST(X)
#undef X

	/* ---- the real engine on the real table ---- */
	KSI_VerificationContext vc;
	int r0 = KSI_VerificationContext_init(&vc, ctx);
	ASSUME(r0 == KSI_OK);
	KSI_PolicyVerificationResult pr;
	memset(&pr, 0, sizeof(pr));
	pr.ref = 1;
	KSI_RuleVerificationResult_init(&pr.finalResult);
	pr.ruleResults = NULL;      /* per-rule bookkeeping list off: Rule_verify ignores its outcome (policy.c:126) */
	pr.policyResults = NULL;

	int res = Policy_verifySignature(KSI_VERIFICATION_POLICY_INTERNAL, &vc, &pr);
	int rc = pr.finalResult.resultCode, ec = pr.finalResult.errorCode;
	int final_ok = (res == KSI_OK && rc == KSI_VER_RES_OK);

	/* ---- oracle ---- */
	unsigned n_app = 0, n_viol = 0, n_unc = 0; int code_viol = -1, ec_unc = -1, res_unc = -1; int fail_code_matches = 0;
#define X(id, rule, code, app) if (app) { n_app++; \
		if (st[id] == VIOLATED) { n_viol++; code_viol = (code); if (ec == (code)) fail_code_matches = 1; } \
		if (st[id] == UNCOMPUTABLE) { n_unc++; ec_unc = unc_ec[id]; res_unc = unc_res[id]; } }
	COND_LIST(X)
#undef X

	CHECK(final_ok == (n_viol == 0 && n_unc == 0), "C01.Hb internal policy reports OK exactly when every applicable consistency condition holds");
	CHECK(pr.resultCode == pr.finalResult.resultCode, "C01.Hb policy result code duplicates the final rule result code");
	if (final_ok) CHECK(ec == KSI_VER_ERR_NONE, "C01.Hb OK verdict carries no error code");
	if (n_viol == 1 && n_unc == 0) {
		CHECK(res == KSI_OK && rc == KSI_VER_RES_FAIL && ec == code_viol, "C01.Hb exactly one violated condition yields FAIL with the documented error code");
	}
	if (n_viol == 0 && n_unc == 1) {
		CHECK(!final_ok && (res != KSI_OK || rc == KSI_VER_RES_NA), "C01.Hb a value that cannot be computed yields an error status or an inconclusive verdict");
		if (res_unc != KSI_OK) CHECK(res == res_unc, "C01.Hb the error status of the rule that could not compute is returned");
		else CHECK(res == KSI_OK && rc == KSI_VER_RES_NA, "C01.Hb an inconclusive rule result becomes the final inconclusive verdict");
		/* the one rule that really reports (KSI_OK, NA, INT-05): its code survives to the final verdict.  (For rules nested in the
		 * publication / auth-record alternatives a later presence probe may replace the code by "none"; the property only asks for NA.) */
		if (res_unc == KSI_OK && hasCal && st[15] == UNCOMPUTABLE) CHECK(ec == ec_unc, "C01.Hb registration time not computable: the rule's own code is the final code");
	}
	if (res == KSI_OK && rc == KSI_VER_RES_FAIL) CHECK(fail_code_matches, "C01.Hb a FAIL verdict carries the code of a violated applicable condition");
	if (res == KSI_OK && rc == KSI_VER_RES_NA) CHECK(n_unc > 0, "C01.Hb an inconclusive verdict only when some applicable value could not be computed");
	if (res != KSI_OK) CHECK(n_unc > 0, "C01.Hb an error status only when some applicable value could not be computed");

	/* ---- glue for the per-rule harnesses: component present when its rules run; tempData hand-over order ---- */
	CHECK(!(VR_CALLS(InputHashAlgorithmVerification) || VR_CALLS(DocumentHashVerification)) || docGiven, "C01.Hb document hash rules run only with a document hash");
	CHECK(!(VR_CALLS(Rfc3161RecordHashAlgorithmVerification) || VR_CALLS(Rfc3161RecordOutputHashAlgorithmVerification)) || hasRfc, "C01.Hb RFC3161 rules run only with an RFC3161 record");
	CHECK(!(VR_CALLS(CalendarHashChainInputHashVerification) || VR_CALLS(CalendarHashChainAggregationTime) || VR_CALLS(CalendarHashChainRegistrationTime)
			|| VR_CALLS(CalendarChainHashAlgorithmObsoleteAtPubTime)) || hasCal, "C01.Hb calendar chain rules run only with a calendar chain");
	CHECK(!(VR_CALLS(SignaturePublicationRecordPublicationHash) || VR_CALLS(SignaturePublicationRecordPublicationTime)) || (hasPub && hasCal), "C01.Hb publication record rules run only with publication record and calendar chain");
	CHECK(!(VR_CALLS(CalendarAuthenticationRecordAggregationHash) || VR_CALLS(CalendarAuthenticationRecordAggregationTime)) || (hasAuth && hasCal), "C01.Hb calendar auth record rules run only with auth record and calendar chain");
	CHECK(VR_SEQ(CalendarHashChainInputHashVerification) == 0 || (VR_SEQ(AggregationHashChainConsistency) != 0
			&& VR_SEQ(AggregationHashChainConsistency) < VR_SEQ(CalendarHashChainInputHashVerification)), "C01.Hb calendar input hash rule runs after the aggregation chain consistency rule");
	/* rules that do not belong to the internal policy are never consulted */
	CHECK(VR_CALLS(CalendarHashChainPresenceVerification) == 0 && VR_CALLS(CertificateExistence) == 0 && VR_CALLS(UserProvidedPublicationExistence) == 0
			&& VR_CALLS(ExtendedSignatureCalendarChainInputHash) == 0 && VR_CALLS(PublicationsFileContainsSignaturePublication) == 0, "C01.Hb internal policy consults internal rules only");
	if (final_ok) {
		/* every applicable verifying rule has actually been evaluated */
		unsigned n_called = 0;
#define X(id, rule, code, app) if (VR_CALLS(rule) == 1) n_called++;
		COND_LIST(X)
#undef X
		CHECK(n_called >= n_app, "C01.Hb OK verdict only after every applicable rule was evaluated once");
	}

	if (final_ok && hasCal && hasPub && docGiven && hasRfc) WITNESS_POINT("extended legacy signature with document hash verifies");
	if (final_ok && !hasCal && !docGiven) WITNESS_POINT("signature without calendar chain verifies");
	if (final_ok && hasAuth) WITNESS_POINT("signature with calendar auth record verifies");
	if (n_viol == 1 && n_unc == 0 && st[18] == VIOLATED && hasPub) WITNESS_POINT("publication time mismatch is the only violation");
	if (n_viol == 0 && n_unc == 1 && st[15] == UNCOMPUTABLE && hasCal && res == KSI_OK) WITNESS_POINT("registration time not computable: inconclusive");
	if (n_viol == 0 && n_unc == 1 && res != KSI_OK) WITNESS_POINT("error status propagated");
	if (n_viol >= 2 && rc == KSI_VER_RES_FAIL) WITNESS_POINT("several violations");
}
