/* C01 H-a (RFC3161 legacy record rules):
 *   Rfc3161RecordHashAlgorithmVerification        INT-14  neither TSTInfo nor SignedAttributes algorithm deprecated at the record's aggregation time
 *   Rfc3161RecordOutputHashAlgorithmVerification  INT-17  algorithm of the first chain's input hash not deprecated at that time
 *   AggregationChainInputHashVerification         INT-01  first chain's input hash == H_out( imprint( H_sig( sigPrefix || digest( H_tst( tstPrefix || digest(record input hash) || tstSuffix ) ) || sigSuffix ) ) )
 *                                                         with H_out = algorithm of the first chain's input hash (KSI format, RFC3161 compatibility record)
 * MODE 0: lifetime rules with fully symbolic 64-bit algorithm ids and times (no hashing).
 * MODE 1: the input hash rule with concrete algorithm ids (they select digest lengths), hash model U.
 * Deprecation facts as in ha_chains.c (only SHA-1, from 1467331200). */
#include "verif.h"
#include "internal.h"
#include "verification_rule.h"
#include "ctx.h"
#include "hash_model.h"
#include "verif_post.h"
#include "types_base.c"
#include "sig_builder.h"

#define SHA1_DEPRECATED_FROM 1467331200ull
#define T63 0x8000000000000000ull
#ifndef CHECK_T63
#define CHECK_T63 0
#endif
#ifndef MODE
#define MODE 0
#endif
#ifndef EXPECT_ERROR
#define EXPECT_ERROR 0     /* MODE 1: an algorithm id of the instance names no supported algorithm */
#endif
#define IS(res_, rc_, ec_) (res == (res_) && r.resultCode == (rc_) && r.errorCode == (ec_))
#define IS_OK IS(KSI_OK, KSI_VER_RES_OK, KSI_VER_ERR_NONE)

static int supported(u64 id) { return id == 0 || id == 1 || id == 2 || id == 4 || id == 5; }

void harness(void) {
	VERIF_ctx_init();
	VERIF_hm_init(0);
	KSI_CTX *ctx = VERIF_ctx;
	sb_build(ctx);
	KSI_RuleVerificationResult r;
	int res;
	const u64 t = SB.rfc.aggrTime;

#if MODE == 0
	/* ---------------- INT-14 ---------------- */
	{
		int dep = (t >= SHA1_DEPRECATED_FROM) && (SB.rfc.tstAlgo == 0 || SB.rfc.sigAlgo == 0);
		int wide = (SB.rfc.tstAlgo > 0xffffffffull || SB.rfc.sigAlgo > 0xffffffffull);
		sb_result_init(&r); res = KSI_VerificationRule_Rfc3161RecordHashAlgorithmVerification(&sb_vc, &r);
		int accepted = (res == KSI_OK && r.resultCode == KSI_VER_RES_OK);
		if (t < T63) CHECK(!accepted || !dep, "C01.Hf record algorithms deprecated at aggregation time are never accepted");
		if (!wide && t < T63) {
			if (!dep) { CHECK(IS_OK, "C01.Hf record algorithms alive at aggregation time are accepted");
				if (SB.rfc.tstAlgo == 0 && t == SHA1_DEPRECATED_FROM - 1) WITNESS_POINT("SHA-1 TSTInfo one second before deprecation");
				if (SB.rfc.sigAlgo == 0x7f) WITNESS_POINT("unknown algorithm id passes the lifetime rule");
			} else { CHECK(IS(KSI_OK, KSI_VER_RES_FAIL, KSI_VER_ERR_INT_14), "C01.Hf a SHA-1 record algorithm from 2016-07-01 on yields FAIL INT-14");
				if (SB.rfc.sigAlgo == 1 && SB.rfc.tstAlgo == 0) WITNESS_POINT("only the TSTInfo algorithm is deprecated");
				if (SB.rfc.sigAlgo == 0 && SB.rfc.tstAlgo == 1) WITNESS_POINT("only the SignedAttributes algorithm is deprecated");
			}
		}
#if CHECK_T63
		if (t >= T63 && !wide && dep) { CHECK(IS(KSI_OK, KSI_VER_RES_FAIL, KSI_VER_ERR_INT_14), "C01.Hf T63 FAIL INT-14 also for aggregation times of 2^63 seconds and beyond");
			WITNESS_POINT("SHA-1 record algorithm with an aggregation time beyond 2^63");
		}
#endif
	}
	/* ---------------- INT-17 ---------------- */
	{
		int dep = (SB.ch[0].in.imp[0] == 0 && t >= SHA1_DEPRECATED_FROM);
		sb_result_init(&r); res = KSI_VerificationRule_Rfc3161RecordOutputHashAlgorithmVerification(&sb_vc, &r);
		if (!dep) { CHECK(IS_OK, "C01.Hf record output algorithm alive at aggregation time is accepted");
			if (SB.ch[0].in.imp[0] == 2) WITNESS_POINT("RIPEMD-160 output hash accepted");
		} else if (t < T63) { CHECK(IS(KSI_OK, KSI_VER_RES_FAIL, KSI_VER_ERR_INT_17), "C01.Hf SHA-1 output hash from 2016-07-01 on yields FAIL INT-17");
			if (t == SHA1_DEPRECATED_FROM) WITNESS_POINT("SHA-1 output hash at the deprecation second");
		}
#if CHECK_T63
		else CHECK(IS(KSI_OK, KSI_VER_RES_FAIL, KSI_VER_ERR_INT_17), "C01.Hf T63 FAIL INT-17 also for aggregation times of 2^63 seconds and beyond");
#endif
	}
#else
	/* ---------------- INT-01 (record output == first chain input) ---------------- */
	sb_result_init(&r); res = KSI_VerificationRule_AggregationChainInputHashVerification(&sb_vc, &r);
	CHECK(VERIF_hm_overflow == 0, "C01.Hf hash-model log large enough");
	const u64 ta = SB.rfc.tstAlgo, sa = SB.rfc.sigAlgo; const unsigned oa = SB.ch[0].in.imp[0];
	if (ta > 0xff || sa > 0xff || !supported(ta) || !supported(sa) || !supported(oa)) {
		CHECK(res != KSI_OK && r.resultCode != KSI_VER_RES_OK, "C01.Hf an algorithm id that names no supported algorithm yields an error status, never OK");
#if EXPECT_ERROR
		WITNESS_POINT("record with an unusable algorithm id refused");
#endif
	} else {
		CHECK(VERIF_hm_nrec == 3, "C01.Hf three hash computations: TSTInfo, SignedAttributes, output");
		const unsigned dl_in = SB.rfc.in.len - 1, dl_t = sb_alg_len((unsigned)ta), dl_s = sb_alg_len((unsigned)sa), dl_o = sb_alg_len(oa);
		int m = 1;
		/* TSTInfo = prefix || digest of the record's input hash || suffix */
		{ unsigned o = 0; const struct hm_rec *q = &VERIF_hm_rec[0];
		  for (unsigned i = 0; i < 2; i++) if (i < sb_rfc_prelen[0]) { if (q->msg[o] != SB.rfc.pre[0][i]) m = 0; o++; }
		  for (unsigned i = 0; i < 64; i++) if (i < dl_in) { if (q->msg[o] != SB.rfc.in.imp[1 + i]) m = 0; o++; }
		  for (unsigned i = 0; i < 2; i++) if (i < sb_rfc_prelen[1]) { if (q->msg[o] != SB.rfc.pre[1][i]) m = 0; o++; }
		  if (q->len != o || (u64)q->alg != ta) m = 0; }
		CHECK(m, "C01.Hf TSTInfo hash = H_tst(prefix || input digest || suffix)");
		m = 1;
		{ unsigned o = 0; const struct hm_rec *q = &VERIF_hm_rec[1];
		  for (unsigned i = 0; i < 2; i++) if (i < sb_rfc_prelen[2]) { if (q->msg[o] != SB.rfc.pre[2][i]) m = 0; o++; }
		  for (unsigned i = 0; i < 64; i++) if (i < dl_t) { if (q->msg[o] != VERIF_hm_rec[0].digest[i]) m = 0; o++; }
		  for (unsigned i = 0; i < 2; i++) if (i < sb_rfc_prelen[3]) { if (q->msg[o] != SB.rfc.pre[3][i]) m = 0; o++; }
		  if (q->len != o || (u64)q->alg != sa) m = 0; }
		CHECK(m, "C01.Hf SignedAttributes hash = H_sig(prefix || TSTInfo digest || suffix)");
		m = 1;
		{ const struct hm_rec *q = &VERIF_hm_rec[2];
		  if (q->msg[0] != (u8)sa) m = 0;
		  for (unsigned i = 0; i < 64; i++) if (i < dl_s && q->msg[1 + i] != VERIF_hm_rec[1].digest[i]) m = 0;
		  if (q->len != 1 + dl_s || (unsigned)q->alg != oa) m = 0; }
		CHECK(m, "C01.Hf output hash = H_out(imprint of the SignedAttributes hash)");
		int same = (SB.ch[0].in.len == 1 + dl_o);
		for (unsigned i = 0; i < 64; i++) if (i < dl_o && same && SB.ch[0].in.imp[1 + i] != VERIF_hm_rec[2].digest[i]) same = 0;
		if (same) { CHECK(IS_OK, "C01.Hf first chain starting from the record's output hash is accepted");
#if !EXPECT_ERROR
			WITNESS_POINT("legacy record chains into the first aggregation chain");
#endif
		} else { CHECK(IS(KSI_OK, KSI_VER_RES_FAIL, KSI_VER_ERR_INT_1), "C01.Hf first chain not starting from the record's output hash yields FAIL INT-01");
#if !EXPECT_ERROR
			WITNESS_POINT("legacy record does not chain into the first aggregation chain");
#endif
		}
	}
#endif
}
