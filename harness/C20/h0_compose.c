/* C20 H-0b: uriCompose (net.c) on parts of concrete length with symbolic characters: the composed text is
 * scheme "://" host [":" port] path ["?" query] ["#" fragment] (host given as the bare address, as uriSplit
 * returns it; an IPv6 address must appear in brackets in the composed URL); also exercises the vsnprintf
 * model (env/c20_vsnprintf.c) (text store, see the model file). */
#include "verif.h"
#include "internal.h"
#include "ctx.h"
#include "verif_post.h"
#include "net.c"
#include "c20_uri.h"
#ifndef BUFSZ
#define BUFSZ 0xffff
#endif
void C20_fmt_text(const char *p, char *out, unsigned max);
void harness(void) {
	c20_build();
	char buf[BUFSZ];
	char exp[64], got[64]; unsigned n = 0;
	for (unsigned i = 0; i < C20_SLEN; i++) exp[n++] = C20.scheme[i];
	exp[n++] = ':'; exp[n++] = '/'; exp[n++] = '/';
	for (unsigned i = 0; i < C20_HOSTLIT_LEN; i++) exp[n++] = C20.hostlit[i];   /* an URL: an IPv6 address is written in brackets */
#if C20_PDIG > 0
	exp[n++] = ':'; for (unsigned i = 0; i < C20_PDIG; i++) exp[n++] = C20.portstr[i];
#endif
#if C20_PLEN > 0
	for (unsigned i = 0; i < C20_PLEN; i++) exp[n++] = C20.path[i];
#endif
#if C20_QLEN > 0
	exp[n++] = '?'; for (unsigned i = 0; i < C20_QLEN; i++) exp[n++] = C20.query[i];
#endif
#if C20_FLEN > 0
	exp[n++] = '#'; for (unsigned i = 0; i < C20_FLEN; i++) exp[n++] = C20.frag[i];
#endif
	exp[n] = 0;
	int res = uriCompose(C20.scheme, NULL, NULL, C20_HOSTKIND == 3 ? NULL : C20.host, C20.port, C20_PLEN ? C20.path : NULL, C20_QLEN ? C20.query : NULL, C20_FLEN ? C20.frag : NULL, buf, sizeof(buf));
	CHECK(res == KSI_OK, "C20.H0b uriCompose succeeds");
	C20_fmt_text(buf, got, sizeof(got));
	CHECK(c20_streq(got, exp, n), "C20.H0b uriCompose output is scheme :// host [:port] path [?query] [#fragment]");
	WITNESS_POINT("composed");
}
