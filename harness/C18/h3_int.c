/* C18 H-3 lemma: objects handed out by the REAL KSI_Integer_new (a static pool entry for values < 256, a heap
 * object otherwise) behave as plain 64-bit values under the three functions through which the publications-file
 * lookups read times: KSI_Integer_getUInt64, KSI_Integer_equals, KSI_Integer_compare - for all pairs of 64-bit
 * values, including two requests for the same pooled value (identical pointers) .  This justifies the private
 * heap representation of times used by h3_lookup (see mk_int there). */
#include "verif.h"
#include "internal.h"
#include "ctx.h"
#include "verif_post.h"
void harness(void) {
	VERIF_ctx_init(); KSI_CTX *ctx = VERIF_ctx;
	u64 a = ND(u64, a), b = ND(u64, b);
#ifdef A_POOLED   /* the four instances (pooled / heap value for a and for b) together cover all pairs */
	ASSUME(A_POOLED ? a < 256 : a >= 256); ASSUME(B_POOLED ? b < 256 : b >= 256);
#endif
	KSI_Integer *x = NULL, *y = NULL; int res;
	res = KSI_Integer_new(ctx, a, &x); CHECK(res == KSI_OK && x != NULL, "C18.H3int KSI_Integer_new succeeds for every value");
	res = KSI_Integer_new(ctx, b, &y); CHECK(res == KSI_OK && y != NULL, "C18.H3int KSI_Integer_new succeeds for every second value");
	CHECK(KSI_Integer_getUInt64(x) == a && KSI_Integer_getUInt64(y) == b, "C18.H3int getUInt64 returns the constructor argument");
	CHECK((KSI_Integer_equals(x, y) != 0) == (a == b), "C18.H3int equals is value equality");
	int c = KSI_Integer_compare(x, y);
	CHECK((c < 0) == (a < b) && (c > 0) == (a > b) && (c == 0) == (a == b), "C18.H3int compare is the order of the values");
	CHECK(KSI_Integer_compare(x, NULL) > 0 && KSI_Integer_compare(NULL, y) < 0 && !KSI_Integer_equals(x, NULL), "C18.H3int an absent integer sorts first and equals nothing");
	if (a == b && a < 256) {
		CHECK(x == y, "C18.H3int pooled values share one object");
#if !defined(A_POOLED) || (A_POOLED && B_POOLED)
		WITNESS_POINT("same pooled value twice");
#endif
	}
#if !defined(A_POOLED) || (A_POOLED && !B_POOLED)
	if (a < 256 && b >= 256 && a < b) WITNESS_POINT("pooled vs heap value");
#endif
	if (a >= 256 && a == b) {
		CHECK(x != y, "C18.H3int heap values are separate objects");
#if !defined(A_POOLED) || (!A_POOLED && !B_POOLED)
		WITNESS_POINT("equal heap values");
#endif
	}
#if defined(A_POOLED) && !A_POOLED && B_POOLED
	if (a > b) WITNESS_POINT("heap vs pooled value");
#endif
	KSI_Integer_free(x); KSI_Integer_free(y);
	/* values read after free only for pool entries (never freed) */
	if (a < 256) CHECK(KSI_Integer_getUInt64(x) == a, "C18.H3int pool entries survive KSI_Integer_free");
}
