/* c04_builder.h - trust anchors for the C04 per-rule harnesses, on top of sig_builder.h (read-only reuse).
 *
 * Everything is built as the typed objects the parsers / public constructors produce; the SHAPE is a compile-time
 * constant of the harness instance, every VALUE is symbolic and mirrored in the plain struct C4 for the oracles.
 *
 *   #include "types_base.c"  "sig_builder.h"  then  "c04_builder.h"
 *
 * Shape macros
 *   C04_USERPUB        0 no user publication, 1 complete, 2 object without time, 3 object without imprint
 *   C04_USERPUB_ALG    algorithm spec of its imprint (see sig_builder.h "algorithm spec")
 *   C04_WITH_PUBFILE   build a KSI_PublicationsFile:  C04_NPUB 0..3 publication records (C04_PF_ALG {a,a,a} spec per record),
 *                      C04_PF_USER 1: handed to the context as userPublicationsFile, 0: only available through the download seam
 *   C04_WITH_CERTS     C04_NCERT 0..2 certificate records with ids of C04_CERTID_LEN {n,n} bytes (needs env pki_model, tu types)
 *   C04_WITH_EXT       build an extender reply (needs env ext_seam, tus types):  C04_EXT_HAS_CHAIN 0/1, C04_EXT_NLINKS 0..4,
 *                      C04_EXT_DIRS (optional) concrete direction bit mask, C04_EXT_HAS_AGGRTIME 0/1, C04_EXT_INALG spec, C04_EXT_SIBALG {a,a,a,a}, C04_EXT_HAS_STATUS, C04_EXT_HAS_REQID
 *                      C04_EXT_STATUS_VALUE / C04_EXT_REQID_VALUE (optional) expressions fixing the reply's status / request id
 *   C04_WITH_SIGDATA   give the calendar auth record PKI signature data: C04_SIGDATA_CERTID_LEN n (or -1: no cert id), C04_SIGVAL_LEN n
 */
#ifndef VERIF_C04_BUILDER_H_
#define VERIF_C04_BUILDER_H_

#ifndef C04_USERPUB
#define C04_USERPUB 0
#endif
#ifndef C04_USERPUB_ALG
#define C04_USERPUB_ALG -20
#endif
#ifndef C04_WITH_PUBFILE
#define C04_WITH_PUBFILE 0
#endif
#ifndef C04_NPUB
#define C04_NPUB 2
#endif
#ifndef C04_PF_ALG
#define C04_PF_ALG {-20, -20, -20}
#endif
#ifndef C04_PF_USER
#define C04_PF_USER 1
#endif
#ifndef C04_WITH_CERTS
#define C04_WITH_CERTS 0
#endif
#ifndef C04_NCERT
#define C04_NCERT 2
#endif
#ifndef C04_CERTID_LEN
#define C04_CERTID_LEN {4, 4}
#endif
#ifndef C04_WITH_EXT
#define C04_WITH_EXT 0
#endif
#ifndef C04_EXT_HAS_CHAIN
#define C04_EXT_HAS_CHAIN 1
#endif
#ifndef C04_EXT_NLINKS
#define C04_EXT_NLINKS 1
#endif
#ifndef C04_EXT_HAS_AGGRTIME
#define C04_EXT_HAS_AGGRTIME 1
#endif
#ifndef C04_EXT_INALG
#define C04_EXT_INALG 0
#endif
#ifndef C04_EXT_SIBALG
#define C04_EXT_SIBALG {0, 0, 0, 0}
#endif
#ifndef C04_EXT_HAS_STATUS
#define C04_EXT_HAS_STATUS 1
#endif
#ifndef C04_EXT_HAS_REQID
#define C04_EXT_HAS_REQID 1
#endif
#ifndef C04_WITH_SIGDATA
#define C04_WITH_SIGDATA 0
#endif
#ifndef C04_SIGDATA_CERTID_LEN
#define C04_SIGDATA_CERTID_LEN 4
#endif
#ifndef C04_SIGVAL_LEN
#define C04_SIGVAL_LEN 4
#endif

#define C04_MAXPUB 3
#define C04_MAXCERT 2
#define C04_MAXID 8

struct c04_pub_v { _Bool hasTime, hasImp; u64 time; struct sb_hash_v imp; };
struct c04_cal_v { u64 pubTime; _Bool hasAggrTime; u64 aggrTime; struct sb_hash_v in; struct { _Bool isLeft; struct sb_hash_v sib; } link[SB_MAXCAL]; };
struct c04_vals {
	struct c04_pub_v up;                             /* user publication */
	struct c04_pub_v pf[C04_MAXPUB];                 /* publications file records */
	struct { u8 id[C04_MAXID]; unsigned idlen; u64 notBefore, notAfter; } cert[C04_MAXCERT];
	struct { u64 status, reqId; struct c04_cal_v cal; } ext;
	struct { u8 certId[C04_MAXID]; u8 sigVal[C04_MAXID]; } sd;
};
static struct c04_vals C4;

static KSI_PublicationData *c04_mk_pubdata(KSI_CTX *ctx, int hasTime, int hasImp, int algspec, struct c04_pub_v *v) {
	KSI_PublicationData *pd = (KSI_PublicationData *)malloc(sizeof(KSI_PublicationData));
	ASSUME(pd != NULL);
	pd->ctx = ctx; pd->ref = 1; pd->baseTlv = NULL; pd->time = NULL; pd->imprint = NULL;
	v->hasTime = hasTime; v->hasImp = hasImp; v->time = 0;
	if (hasTime) { v->time = ND(u64, c04_pub_time); pd->time = sb_mk_int(v->time); }
	if (hasImp) pd->imprint = sb_mk_hash(ctx, algspec, &v->imp);
	return pd;
}

/* ---- user publication ---- */
static KSI_PublicationData *c04_userpub;
static void c04_build_userpub(KSI_CTX *ctx) {
	c04_userpub = NULL;
#if C04_USERPUB != 0
	c04_userpub = c04_mk_pubdata(ctx, C04_USERPUB != 2, C04_USERPUB != 3, C04_USERPUB_ALG, &C4.up);
#endif
	sb_vc.userPublication = c04_userpub;
}

/* ---- publications file ---- */
#if C04_WITH_PUBFILE
static KSI_PublicationsFile *c04_pubfile;
static KSI_PublicationRecord *c04_pf_rec[C04_MAXPUB];
static const int c04_pf_alg[C04_MAXPUB] = C04_PF_ALG;
#if C04_WITH_CERTS
#include "pki_model.h"
static const unsigned c04_certid_len[C04_MAXCERT] = C04_CERTID_LEN;
static KSI_PKICertificate *c04_cert[C04_MAXCERT];
#endif
static void c04_build_pubfile(KSI_CTX *ctx) {
	int res;
	KSI_PublicationsFile *pf = (KSI_PublicationsFile *)malloc(sizeof(KSI_PublicationsFile));
	ASSUME(pf != NULL);
	memset(pf, 0, sizeof(*pf));
	pf->ctx = ctx; pf->ref = 1;
	res = KSI_PublicationRecordList_new(&pf->publications);
	ASSUME(res == KSI_OK);
	for (unsigned i = 0; i < C04_MAXPUB; i++) {
		if (i < C04_NPUB) {
			KSI_PublicationRecord *pr = (KSI_PublicationRecord *)malloc(sizeof(KSI_PublicationRecord));
			ASSUME(pr != NULL);
			pr->ctx = ctx; pr->ref = 1; pr->publicationRef = NULL; pr->repositoryUriList = NULL;
			pr->publishedData = c04_mk_pubdata(ctx, 1, 1, c04_pf_alg[i], &C4.pf[i]);     /* both mandatory in a parsed file (tlv template) */
			c04_pf_rec[i] = pr;
			res = KSI_PublicationRecordList_append(pf->publications, pr);
			ASSUME(res == KSI_OK);
		}
	}
#if C04_WITH_CERTS
	res = KSI_CertificateRecordList_new(&pf->certificates);
	ASSUME(res == KSI_OK);
	for (unsigned i = 0; i < C04_MAXCERT; i++) {
		if (i < C04_NCERT) {
			KSI_CertificateRecord *cr = NULL;
			res = KSI_CertificateRecord_new(ctx, &cr);
			ASSUME(res == KSI_OK && cr != NULL);
			C4.cert[i].idlen = c04_certid_len[i];
			res = KSI_CertificateRecord_setCertId(cr, sb_mk_octets(ctx, c04_certid_len[i], C4.cert[i].id));
			ASSUME(res == KSI_OK);
			C4.cert[i].notBefore = ND(u64, c04_not_before); C4.cert[i].notAfter = ND(u64, c04_not_after);
			c04_cert[i] = VERIF_pki_mk_cert(ctx, C4.cert[i].notBefore, C4.cert[i].notAfter);
			res = KSI_CertificateRecord_setCert(cr, c04_cert[i]);
			ASSUME(res == KSI_OK);
			res = KSI_CertificateRecordList_append(pf->certificates, cr);
			ASSUME(res == KSI_OK);
		}
	}
#endif
	c04_pubfile = pf;
#if C04_PF_USER
	sb_vc.userPublicationsFile = pf;
#endif
}
#endif

/* ---- calendar chain as an extender returns it ---- */
#if C04_WITH_EXT
#include "ext_seam.h"
static const int c04_ext_sibalg[SB_MAXCAL] = C04_EXT_SIBALG;
static KSI_CalendarHashChain *c04_ext_cal;
static KSI_CalendarHashChain *c04_mk_extcal(KSI_CTX *ctx, struct c04_cal_v *v) {
	int res;
	KSI_CalendarHashChain *cal = (KSI_CalendarHashChain *)malloc(sizeof(KSI_CalendarHashChain));
	ASSUME(cal != NULL);
	cal->ctx = ctx; cal->ref = 1; cal->outputHash = NULL; cal->aggregationTime = NULL;
	v->pubTime = ND(u64, c04_ext_pubtime);
	cal->publicationTime = sb_mk_int(v->pubTime);
	v->hasAggrTime = C04_EXT_HAS_AGGRTIME; v->aggrTime = 0;
#if C04_EXT_HAS_AGGRTIME
	v->aggrTime = ND(u64, c04_ext_aggrtime);
	cal->aggregationTime = sb_mk_int(v->aggrTime);
#endif
	cal->inputHash = sb_mk_hash(ctx, C04_EXT_INALG, &v->in);
	res = KSI_HashChainLinkList_new(&cal->hashChain);
	ASSUME(res == KSI_OK);
	for (unsigned l = 0; l < SB_MAXCAL; l++) {
		if (l < C04_EXT_NLINKS) {
			KSI_HashChainLink *lk = (KSI_HashChainLink *)malloc(sizeof(KSI_HashChainLink));
			ASSUME(lk != NULL);
			lk->ctx = ctx; lk->legacyId = NULL; lk->metaData = NULL; lk->levelCorrection = NULL;
#ifdef C04_EXT_DIRS          /* concrete direction pattern (bit l = link l is a left link): directions decide WHICH links are compared / how they are hashed */
			v->link[l].isLeft = (((C04_EXT_DIRS) >> l) & 1) != 0;
#else
			v->link[l].isLeft = ND_BOOL(c04_ext_isleft);
#endif
			lk->isLeft = v->link[l].isLeft;
			lk->imprint = sb_mk_hash(ctx, c04_ext_sibalg[l], &v->link[l].sib);
			res = KSI_HashChainLinkList_append(cal->hashChain, lk);
			ASSUME(res == KSI_OK);
		}
	}
	return cal;
}
/* the reply object the seam will hand out: status / request id / chain present per shape, values symbolic */
static KSI_ExtendResp *c04_build_extresp(KSI_CTX *ctx) {
	KSI_ExtendResp *r = NULL;
	int res = KSI_ExtendResp_new(ctx, &r);
	ASSUME(res == KSI_OK && r != NULL);
#if C04_EXT_HAS_STATUS
#ifdef C04_EXT_STATUS_VALUE      /* concrete status (it decides whether a chain is taken from the reply at all) */
	C4.ext.status = (C04_EXT_STATUS_VALUE);
#else
	C4.ext.status = ND(u64, c04_ext_status);
#endif
	res = KSI_ExtendResp_setStatus(r, sb_mk_int(C4.ext.status)); ASSUME(res == KSI_OK);
#endif
#if C04_EXT_HAS_REQID
#ifdef C04_EXT_REQID_VALUE
	C4.ext.reqId = (C04_EXT_REQID_VALUE);
#else
	C4.ext.reqId = ND(u64, c04_ext_reqid);
#endif
	res = KSI_ExtendResp_setRequestId(r, sb_mk_int(C4.ext.reqId)); ASSUME(res == KSI_OK);
#endif
	c04_ext_cal = NULL;
#if C04_EXT_HAS_CHAIN
	c04_ext_cal = c04_mk_extcal(ctx, &C4.ext.cal);
	res = KSI_ExtendResp_setCalendarHashChain(r, c04_ext_cal); ASSUME(res == KSI_OK);
#endif
	return r;
}
#endif

/* ---- PKI signature data of the calendar authentication record ---- */
#if C04_WITH_SIGDATA
static const char c04_sigtype[] = "1.2.840.113549.1.1.11";
static KSI_OctetString *c04_sd_certid, *c04_sd_sigval;
static void c04_build_sigdata(KSI_CTX *ctx) {
	KSI_PKISignedData *sd = NULL;
	int res = KSI_PKISignedData_new(ctx, &sd);
	ASSUME(res == KSI_OK && sd != NULL);
	KSI_Utf8String *st = (KSI_Utf8String *)malloc(sizeof(KSI_Utf8String));
	ASSUME(st != NULL);
	st->ctx = ctx; st->ref = 1; st->value = (char *)c04_sigtype; st->len = sizeof(c04_sigtype);
	res = KSI_PKISignedData_setSigType(sd, st); ASSUME(res == KSI_OK);
	c04_sd_sigval = sb_mk_octets(ctx, C04_SIGVAL_LEN, C4.sd.sigVal);
	res = KSI_PKISignedData_setSignatureValue(sd, c04_sd_sigval); ASSUME(res == KSI_OK);
	c04_sd_certid = NULL;
#if C04_SIGDATA_CERTID_LEN >= 0
	c04_sd_certid = sb_mk_octets(ctx, C04_SIGDATA_CERTID_LEN, C4.sd.certId);
	res = KSI_PKISignedData_setCertId(sd, c04_sd_certid); ASSUME(res == KSI_OK);
#endif
	sb_sig->calendarAuthRec->signatureData = sd;
}
#endif

/* ---- reference helpers over raw values ---- */
/* root of a calendar chain: hash-model independent statement is not possible; harnesses that need roots use the hash model log */

#endif
