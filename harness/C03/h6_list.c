/* C03 H-6: KSI_AggregationHashChainList_aggregate threads the level through consecutive chains
 * (chain k+1 starts at the end level of chain k), hashes every chain from ITS OWN input hash with ITS OWN
 * algorithm, and returns the last chain's root; KSI_AggregationHashChain_aggregate's cache returns the
 * same root without re-hashing for the same start level and recomputes for another one.
 * Shape: 2 chains x 1 imprint link (SHA-1 sized), algorithms concrete; values symbolic. */
#include "verif.h"
#include "internal.h"
#include "impl/hashchain_impl.h"
#include "ctx.h"
#include "hash_model.h"
#include "verif_post.h"
#define NCH 2
/* same instantiation as signature.c:179 (signature.c itself is not linked) */
KSI_IMPLEMENT_LIST(KSI_AggregationHashChain, KSI_AggregationHashChain_free);
static KSI_AggregationHashChain *mk_chain(KSI_CTX *ctx, int alg, u8 *in_d, u8 *sib_d, int isLeft, u64 corr) {
	KSI_AggregationHashChain *c = NULL; KSI_HashChainLink *link = NULL; int res;
	res = KSI_AggregationHashChain_new(ctx, &c); ASSUME(res == KSI_OK);
	res = KSI_Integer_new(ctx, (u64)alg, &c->aggrHashId); ASSUME(res == KSI_OK);
	res = KSI_DataHash_fromDigest(ctx, KSI_HASHALG_SHA1, in_d, 20, &c->inputHash); ASSUME(res == KSI_OK);
	res = KSI_HashChainLinkList_new(&c->chain); ASSUME(res == KSI_OK);
	res = KSI_HashChainLink_new(ctx, &link); ASSUME(res == KSI_OK);
	link->isLeft = isLeft;
	res = KSI_Integer_new(ctx, corr, &link->levelCorrection); ASSUME(res == KSI_OK);
	res = KSI_DataHash_fromDigest(ctx, KSI_HASHALG_SHA1, sib_d, 20, &link->imprint); ASSUME(res == KSI_OK);
	res = KSI_HashChainLinkList_append(c->chain, link); ASSUME(res == KSI_OK);
	return c;
}
void harness(void) {
	VERIF_ctx_init(); VERIF_hm_init(0);
	KSI_CTX *ctx = VERIF_ctx; int res;
	static const int alg[NCH] = {KSI_HASHALG_SHA2_256, KSI_HASHALG_SHA1};
	u8 in_d[NCH][20], sib_d[NCH][20]; int left[NCH]; u64 corr[NCH];
	KSI_AggregationHashChain *ch[NCH];
	KSI_AggregationHashChainList *lst = NULL;
	res = KSI_AggregationHashChainList_new(&lst); ASSUME(res == KSI_OK);
	for (unsigned c = 0; c < NCH; c++) {
		for (unsigned k = 0; k < 20; k++) { in_d[c][k] = ND(u8, in_d); sib_d[c][k] = ND(u8, sib_d); }
		left[c] = ND_BOOL(left); corr[c] = ND(u64, corr);
		ch[c] = mk_chain(ctx, alg[c], in_d[c], sib_d[c], left[c], corr[c]);
		res = KSI_AggregationHashChainList_append(lst, ch[c]); ASSUME(res == KSI_OK);
	}
	int level = ND(int, level); ASSUME(level >= 0 && level <= 255);
	KSI_DataHash *out = NULL;
	res = KSI_AggregationHashChainList_aggregate(lst, ctx, level, &out);
	u64 l1 = (u64)level + corr[0] + 1, l2 = l1 + corr[1] + 1;
	int ok = corr[0] <= 255 && l1 <= 255 && corr[1] <= 255 && l2 <= 255;
	CHECK((res == KSI_OK) == ok, "C03.H6 chain list accepted iff all levels stay within 0..255");
	if (res == KSI_OK) {
		CHECK(VERIF_hm_nrec == 2, "C03.H6 one hash per link");
		/* level bytes: chain 0 message is 21+21+1 bytes, level byte at offset 42 */
		CHECK(VERIF_hm_rec[0].len == 43 && VERIF_hm_rec[0].msg[42] == (u8)l1, "C03.H6 first chain starts at the given level");
		CHECK(VERIF_hm_rec[1].len == 43 && VERIF_hm_rec[1].msg[42] == (u8)l2, "C03.H6 second chain starts at the first chain's end level");
		CHECK(VERIF_hm_rec[0].alg == alg[0] && VERIF_hm_rec[1].alg == alg[1], "C03.H6 every chain uses its own algorithm id");
		/* second chain hashes its own input hash, at the position its direction says */
		unsigned off = left[1] ? 0 : 21; int own = (VERIF_hm_rec[1].msg[off] == KSI_HASHALG_SHA1);
		for (unsigned k = 0; k < 20; k++) if (VERIF_hm_rec[1].msg[off + 1 + k] != in_d[1][k]) own = 0;
		CHECK(own, "C03.H6 second chain hashes its own input hash");
		const unsigned char *imp = NULL; size_t il = 0; KSI_DataHash_getImprint(out, &imp, &il);
		int eq = (il == 21 && imp[0] == KSI_HASHALG_SHA1);
		for (unsigned k = 0; k < 20; k++) if (eq && imp[1 + k] != VERIF_hm_rec[1].digest[k]) eq = 0;
		CHECK(eq, "C03.H6 result is the last chain's root");
		/* cache: same level -> no new hashing, same root; other level -> recomputed at that level */
		KSI_DataHash *again = NULL; int el = -1;
		res = KSI_AggregationHashChain_aggregate(ch[1], (int)l1, &el, &again);
		CHECK(res == KSI_OK && VERIF_hm_nrec == 2 && el == (int)l2 && again == out, "C03.H6 repeated aggregation at the same level is served from the cache unchanged");
		int lv2 = ND(int, level2); ASSUME(lv2 >= 0 && lv2 <= 255 && lv2 != (int)l1);
		KSI_DataHash *third = NULL; el = -1;
		VERIF_hm_nrec = 0;
		res = KSI_AggregationHashChain_aggregate(ch[1], lv2, &el, &third);
		u64 l3 = (u64)lv2 + corr[1] + 1;
		CHECK((res == KSI_OK) == (l3 <= 255), "C03.H6 re-aggregation at another level accepted iff in range");
		if (res == KSI_OK) {
			CHECK(VERIF_hm_nrec == 1 && VERIF_hm_rec[0].msg[42] == (u8)l3 && el == (int)l3, "C03.H6 cache is not used for a different start level");
			WITNESS_POINT("re-aggregated at another level");
		}
		if (left[0] && !left[1] && corr[0] == 7) WITNESS_POINT("two chains aggregated");
	} else {
		CHECK(out == NULL, "C03.H6 no root on rejection");
		if (corr[0] <= 255 && l1 <= 255) WITNESS_POINT("second chain out of range rejected");
	}
}
