/* C19 H-13 (a): the TLV template engine on the REAL template of KSI_HashChainLink (list-less, nested template) under
 * allocation failure.  Generic part and the list of checks: harness/common/c19_tmpl_body.h.
 *   VARIANT 1: level correction + LEGACY ID (row KSI_TLV_OBJECT with KSI_HashChainLink_LegacyId_fromTlv / _toTlv)
 *   VARIANT 2: level correction + META DATA (row KSI_TLV_COMPOSITE_OBJECT: KSI_MetaDataElement_fromTlv runs the engine
 *              recursively on the KSI_MetaDataElement template, whose setters / getters work on a KSI_TlvElement)
 * Real code: tlv_template.c (text, one cut with proof obligation: c19_tmpl_cut.h), types.c and hashchain.c (text, same
 * translation unit - see h13_header.c), tlv.c, fast_tlv.c, tlv_element.c, list.c, types_base.c, hash.c.
 *
 * Shape (concrete): left link (element tag 0x07), level correction 3 (static integer pool); legacy id = 29 octets
 * 03 00 02 n0 n1 00.., n0 n1 SYMBOLIC (the format check does not look at the name octets); meta data = client id "ab".
 * In the plan: VARIANT 1 (all eight operations).  VARIANT 2 is NOT in the plan: 17-23 allocations per operation with
 * tlv_element.c in the path, meta_ext_k0 / meta_extlazy_k0 did not finish in 200 s; it was enumerated natively (gcc -DREPLAY,
 * ASan/UBSan/LSan, operations 1,3,4,5,6,7,8,9, every k = 0..NALLOC+1) without a report.  Observation (not a defect):
 * KSI_MetaDataElement_fromTlv rewrites its INPUT element - the nested list expanded by its verification pass is turned back
 * into a raw value by KSI_TLV_getRawValue / encodeAsRaw - the element keeps its encoding, also when encodeAsRaw fails.
 * Encoding (oracle, by hand):  V1: 07 22 | 01 01 03 | 03 1d 03 00 02 n0 n1 00 x 24      V2: 07 0a | 01 01 03 | 04 05 | 01 03 'a' 'b' 00 */
#include "c19.h"
#include "tlv.h"
#include "tlv_template.h"
#include "tlv_element.h"
#include "hashchain.h"
#include "verif_post.h"
#ifndef VARIANT
#define VARIANT 1
#endif
#define TMPL_ROWS_OF(t) ((t) == KSI_TLV_TEMPLATE(KSI_HashChainLink) ? 4u : (t) == KSI_TLV_TEMPLATE(KSI_MetaDataElement) ? 5u : 0u)
#include "c19_tmpl_cut.h"               /* the REAL tlv_template.c as text; getTemplateLength cut with proof obligation */
#include "types.c"
#include "hashchain.c"

#define T KSI_HashChainLink
#define T_NEW(ctx, po) KSI_HashChainLink_new((ctx), (po))
#define T_FREE(o) KSI_HashChainLink_free(o)
#define TMPL KSI_TLV_TEMPLATE(KSI_HashChainLink)
#define TOP_TAG 0x07
#define NSNAP 5
#define T_FROMTLV(tlv, po) KSI_HashChainLink_fromTlv((tlv), (po))
#define T_TOTLV(ctx, o, pt) KSI_HashChainLink_toTlv((ctx), (o), 0, 0, 0, (pt))
#if VARIANT == 1
#define EXP_LEN 36
#else
#define EXP_LEN 12
#endif

struct vals { u8 n0, n1; };
static void draw(struct vals *v) {
#if VARIANT == 1
	v->n0 = ND(u8, name_0); v->n1 = ND(u8, name_1);
#else
	v->n0 = 'a'; v->n1 = 'b';
#endif
}
static void mk_legacy(u8 *b, const struct vals *v) {
	for (unsigned i = 0; i < 29; i++) b[i] = 0;
	b[0] = 0x03; b[1] = 0x00; b[2] = 0x02; b[3] = v->n0; b[4] = v->n1;
}
static void mk_bytes(u8 *b, const struct vals *v) {
	b[0] = 0x07; b[2] = 0x01; b[3] = 0x01; b[4] = 0x03;
#if VARIANT == 1
	b[1] = 0x22; b[5] = 0x03; b[6] = 0x1d; mk_legacy(b + 7, v);
#else
	b[1] = 0x0a; b[5] = 0x04; b[6] = 0x05; b[7] = 0x01; b[8] = 0x03; b[9] = v->n0; b[10] = v->n1; b[11] = 0;
#endif
}
static KSI_HashChainLink *mk_obj(KSI_CTX *ctx, const struct vals *v) {
	KSI_HashChainLink *l = NULL; KSI_Integer *lc = NULL; int res;
	res = KSI_HashChainLink_new(ctx, &l); ASSUME(res == KSI_OK);
	res = KSI_HashChainLink_setIsLeft(l, 1); ASSUME(res == KSI_OK);
	res = KSI_Integer_new(ctx, 3, &lc); ASSUME(res == KSI_OK);
	res = KSI_HashChainLink_setLevelCorrection(l, lc); ASSUME(res == KSI_OK);
#if VARIANT == 1
	u8 id[29]; KSI_OctetString *o = NULL;
	mk_legacy(id, v);
	res = KSI_OctetString_new(ctx, id, 29, &o); ASSUME(res == KSI_OK);
	res = KSI_HashChainLink_setLegacyId(l, o); ASSUME(res == KSI_OK);
#else
	KSI_MetaDataElement *md = NULL; KSI_Utf8String *s = NULL; char str[3] = {(char)v->n0, (char)v->n1, 0};
	res = KSI_MetaDataElement_new(ctx, &md); ASSUME(res == KSI_OK);
	res = KSI_Utf8String_new(ctx, str, 3, &s); ASSUME(res == KSI_OK);
	res = KSI_MetaDataElement_setClientId(md, s); ASSUME(res == KSI_OK);      /* stores the value in the element, releases s */
	res = KSI_HashChainLink_setMetaData(l, md); ASSUME(res == KSI_OK);
#endif
	return l;
}
static int obj_matches(KSI_HashChainLink *l, const struct vals *v) {
	KSI_Integer *lc = NULL; KSI_OctetString *id = NULL; KSI_MetaDataElement *md = NULL; KSI_DataHash *h = NULL;
	if (l == NULL) return 0;
	if (KSI_HashChainLink_getLevelCorrection(l, &lc) != KSI_OK || KSI_HashChainLink_getLegacyId(l, &id) != KSI_OK
		|| KSI_HashChainLink_getMetaData(l, &md) != KSI_OK || KSI_HashChainLink_getImprint(l, &h) != KSI_OK) return 0;
	if (lc == NULL || KSI_Integer_getUInt64(lc) != 3 || h != NULL) return 0;
#if VARIANT == 1
	const unsigned char *d = NULL; size_t n = 0; u8 e[29]; int same = 1;
	if (md != NULL || id == NULL || KSI_OctetString_extract(id, &d, &n) != KSI_OK || n != 29) return 0;
	mk_legacy(e, v);
	for (unsigned i = 0; i < 29; i++) if (d[i] != e[i]) same = 0;
	return same;
#else
	KSI_Utf8String *s = NULL;
	if (id != NULL || md == NULL) return 0;
	if (KSI_MetaDataElement_getClientId(md, &s) != KSI_OK || s == NULL || KSI_Utf8String_size(s) != 3) return 0;
	const char *c = KSI_Utf8String_cstr(s);
	return c[0] == (char)v->n0 && c[1] == (char)v->n1 && c[2] == 0;
#endif
}
static void obj_snap(KSI_HashChainLink *l, void **s) {
	KSI_Integer *lc = NULL; KSI_OctetString *id = NULL; KSI_MetaDataElement *md = NULL; KSI_DataHash *h = NULL;
	KSI_HashChainLink_getLevelCorrection(l, &lc); KSI_HashChainLink_getLegacyId(l, &id); KSI_HashChainLink_getMetaData(l, &md); KSI_HashChainLink_getImprint(l, &h);
	s[0] = lc; s[1] = id; s[2] = md; s[3] = h; s[4] = (md != NULL) ? (void *)md->impl : NULL;
}
static int fromtlv_extra(KSI_HashChainLink *l, const struct vals *v) {
	int left = 0; (void)v;
	return KSI_HashChainLink_getIsLeft(l, &left) == KSI_OK && left == 1;      /* element tag 0x07 = left link */
}
#include "c19_tmpl_body.h"
