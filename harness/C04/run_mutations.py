#!/usr/bin/env python3
"""Mutation sanity check of the C04 harnesses.

  python3 harness/C04/run_mutations.py [--only ID[,ID]] [--jobs N]

Creates a scratch worktree of /repo under /tmp (engine/mkscratch.sh), applies one mutation at a time (exact, unique
string replacement in one source file), runs the named harness instance(s) against it with VERIF_REPO and records
whether the harness reports the mutation (status other than ok / a failing CHECK).  The worktree is removed at the end.
/repo itself is never touched.  Results are printed as a markdown table (copied into MUTATIONS.md)."""
import argparse, json, os, re, subprocess, sys, time

VERIF = os.path.dirname(os.path.dirname(os.path.dirname(os.path.abspath(__file__))))
SCRATCH = "/tmp/c04-mut-%d" % os.getpid()

# id, file, old, new, harness instances (prefixes for --only), description
M = []
def mut(i, f, old, new, only, what):
    M.append({"id": i, "file": f, "old": old, "new": new, "only": only, "what": what})

P = "src/ksi/policy.c"
V = "src/ksi/verification_rule.c"

# ---- rule tables (H-b) ----
mut("T1", P, "\t{KSI_RULE_TYPE_BASIC, KSI_VerificationRule_UserProvidedPublicationHashVerification},\n", "",
    "hb_anchor.user,hb_anchor.general", "user-publication policy compares publication time but not hash (rule dropped from suitablePubExist)")
mut("T2", P, "\t{KSI_RULE_TYPE_BASIC, KSI_VerificationRule_PublicationsFileExtendingPermittedVerification},\n", "",
    "hb_anchor.pubfile", "extendingAllowed test dropped from the publications-file policy")
mut("T3", P, "\t{KSI_RULE_TYPE_COMPOSITE_OR, publicationsFileBasedRules},\n\t{KSI_RULE_TYPE_COMPOSITE_OR, keyBasedRules},\n",
    "\t{KSI_RULE_TYPE_COMPOSITE_OR, keyBasedRules},\n\t{KSI_RULE_TYPE_COMPOSITE_OR, publicationsFileBasedRules},\n",
    "hb_anchor.general", "general policy tries key-based before publications-file-based")
mut("T4", P, "\t{KSI_RULE_TYPE_BASIC, KSI_VerificationRule_RequireNoUserProvidedPublication },\n", "",
    "hb_anchor.general", "general policy falls through to other anchors although a user publication was supplied")
mut("T5", P, "static const KSI_Rule keyBasedRules[] = {\n\t{KSI_RULE_TYPE_COMPOSITE_AND, internalRules},", "static const KSI_Rule keyBasedRules[] = {\n\t{KSI_RULE_TYPE_COMPOSITE_OR, internalRules},",
    "hb_anchor.key", "key-based policy: internal verification OR-ed instead of AND-ed (OK without anchor)")
mut("T6", P, "\t{KSI_RULE_TYPE_BASIC, KSI_VerificationRule_ExtendedSignatureCalendarChainInputHash},\n\t{KSI_RULE_TYPE_BASIC, KSI_VerificationRule_ExtendedSignatureCalendarChainAggregationTime},\n\t{KSI_RULE_TYPE_BASIC, NULL}\n};\n\nstatic const KSI_Rule calendarHashChainRule_cal",
    "\t{KSI_RULE_TYPE_BASIC, KSI_VerificationRule_ExtendedSignatureCalendarChainInputHash},\n\t{KSI_RULE_TYPE_BASIC, NULL}\n};\n\nstatic const KSI_Rule calendarHashChainRule_cal",
    "hb_anchor.cal", "calendar-based policy: aggregation time of the extended chain not compared (CAL-03 rule dropped from extendToCalendarChainRule)")
mut("T7", P, "static const KSI_Rule publicationRecordRule_pubFile[] = {\n\t{KSI_RULE_TYPE_COMPOSITE_OR, sigPubRecExist_pubFile},\n\t{KSI_RULE_TYPE_COMPOSITE_OR, sigPubRecMissing_pubFile},\n",
    "static const KSI_Rule publicationRecordRule_pubFile[] = {\n\t{KSI_RULE_TYPE_COMPOSITE_OR, sigPubRecExist_pubFile},\n\t{KSI_RULE_TYPE_COMPOSITE_OR, sigPubRecMissing_pubFile},\n\t{KSI_RULE_TYPE_COMPOSITE_OR, emptyRules},\n",
    "hb_anchor.pubfile,hb_anchor.general", "always-OK shortcut appended as a last OR branch of the publications-file policy")
mut("T8", P, "\t{KSI_RULE_TYPE_BASIC, KSI_VerificationRule_CertificateValidity},\n", "",
    "hb_anchor.key,hb_anchor.general", "KEY-03 rule removed from the key-based table")
mut("T9", P, "static const KSI_Rule CalendarChainRightLinksVerificationRule[] = {\n\t{KSI_RULE_TYPE_BASIC, KSI_VerificationRule_SignatureDoesNotContainPublication},",
    "static const KSI_Rule CalendarChainRightLinksVerificationRule[] = {\n\t{KSI_RULE_TYPE_BASIC, KSI_VerificationRule_SignaturePublicationRecordExistence},",
    "hb_anchor.cal", "calendar-based: right-link comparison guarded by the wrong presence probe")
mut("T10", P, "static const KSI_Rule userProvidedPublicationBasedRules[] = {\n\t{KSI_RULE_TYPE_COMPOSITE_AND, internalRules},\n", "static const KSI_Rule userProvidedPublicationBasedRules[] = {\n",
    "hb_anchor.user", "user-publication policy without internal verification")
mut("T11", P, "\t{KSI_RULE_TYPE_BASIC, KSI_VerificationRule_UserProvidedPublicationTimeMatchesExtendedResponse},\n", "",
    "hb_anchor.user", "PUB-02 rule dropped from extendToUserPublication")
mut("T12", P, "static const KSI_Rule suitablePubMissing_pubFile[] = {\n\t{KSI_RULE_TYPE_BASIC, KSI_VerificationRule_PublicationsFileDoesNotContainSignaturePublication},\n",
    "static const KSI_Rule suitablePubMissing_pubFile[] = {\n",
    "hb_anchor.pubfile", "publications-file policy extends even though the file has (another hash for) the signature's publication time: PUB-05 masked")


def sh(cmd, **kw):
    return subprocess.run(cmd, stdout=subprocess.PIPE, stderr=subprocess.STDOUT, universal_newlines=True, **kw)


def main():
    ap = argparse.ArgumentParser()
    ap.add_argument("--only", default="")
    ap.add_argument("--jobs", type=int, default=4)
    a = ap.parse_args()
    sel = [x for x in a.only.split(",") if x]
    r = sh([os.path.join(VERIF, "engine", "mkscratch.sh"), SCRATCH])
    if r.returncode != 0:
        print(r.stdout); return 2
    rows = []
    try:
        for m in M:
            if sel and not any(m["id"].startswith(s) for s in sel):
                continue
            path = os.path.join(SCRATCH, m["file"])
            orig = open(path).read()
            if orig.count(m["old"]) != 1:
                rows.append((m, "NOT-APPLIED (pattern occurs %d times)" % orig.count(m["old"]), ""))
                continue
            open(path, "w").write(orig.replace(m["old"], m["new"]))
            t0 = time.time()
            env = dict(os.environ); env["VERIF_REPO"] = SCRATCH
            r = sh([sys.executable, os.path.join(VERIF, "engine", "ksicheck.py"), "C04", "--only", m["only"], "--jobs", str(a.jobs)], env=env, cwd=VERIF)
            open(path, "w").write(orig)
            out = r.stdout
            stat = re.findall(r"^\[C04\] (\S+)\s+(\S+)", out, re.M)
            checks = sorted(set(re.findall(r"check=CHECK (.*?) \(", out)))
            mism = re.findall(r"MODEL-MISMATCH[^\n]*", out)
            caught = any(s != "ok" for _, s in stat) and ("VIOLATION" in out or mism or any(s in ("vacuous",) for _, s in stat))
            verdict = "CAUGHT" if ("VIOLATION" in out) else ("caught (non-ok: %s)" % ",".join(s for _, s in stat if s != "ok") if caught else "MISSED")
            rows.append((m, verdict, "; ".join(checks)[:400] + (" " + mism[0][:200] if mism else "")))
            print("%s %s %.0fs  %s" % (m["id"], verdict, time.time() - t0, "; ".join(checks)[:300]), flush=True)
            if verdict == "MISSED" or "non-ok" in verdict:
                print(out[-1500:], flush=True)
    finally:
        sh(["git", "-C", "/repo", "worktree", "remove", "--force", SCRATCH])
    print("\n| id | mutation | harness | result | failing checks |\n|---|---|---|---|---|")
    for m, v, c in rows:
        print("| %s | %s (`%s`) | %s | %s | %s |" % (m["id"], m["what"], m["file"].split("/")[-1], m["only"], v, c))
    return 0


if __name__ == "__main__":
    sys.exit(main())
