/* C06 H-5 (blocking clients): verify-before-use in net.c
 *   FAM=0: KSI_RequestHandle_getAggregationResponse     FAM=1: KSI_RequestHandle_getExtendResponse
 * Every types.c callee is a stub with a symbolic outcome; a ghost flag records that the MAC of THIS PDU object was
 * verified with the endpoint's key.  For every combination of callee outcomes and member presence:
 *   (1) the response payload, the configuration payload and the user's configuration callback are reached only after
 *       the PDU had a header and a MAC and its verification returned KSI_OK under the endpoint key;
 *   (2) the function returns a response object only in that case;
 *   (3) an error PDU or a parse failure yields no response object and touches no payload - also when the PDU carries a
 *       response and / or configuration payload next to the error payload (the presence flags are independent) - and a
 *       non-zero error status is returned as an error (an error payload with status 0 / without status converts to KSI_OK
 *       in libksi: then KSI_OK is returned WITHOUT a response object, which every caller treats as a failure);
 *   (4) the PDU object is released exactly once.
 * Real code: the two functions, KSI_RequestHandle_getResponse/getRequest, KSI_convert*StatusCode (net.c). */
#include "verif.h"
#include "internal.h"
#include "net.h"
#include "impl/net_impl.h"
#include "impl/ctx_impl.h"
#include "impl/hash_impl.h"
#include "ctx.h"
#include "verif_post.h"
#include "types_base.c"   /* struct KSI_Integer_st is private to types_base.c: integers are built directly, see mk_int */

#ifndef FAM
#define FAM 0
#endif

/* model objects (the real structs are private to types.c, which is not linked) */
struct KSI_ErrorPdu_st { int x; };
struct KSI_Config_st { int x; };
struct KSI_Header_st { int x; };
#if FAM == 0
struct KSI_AggregationPdu_st { int verified; int freed; };
struct KSI_AggregationResp_st { int x; int has_conf; };
struct KSI_AggregationReq_st { int x; };
typedef KSI_AggregationPdu PDU; typedef KSI_AggregationResp RESP; typedef KSI_AggregationReq REQ;
#else
struct KSI_ExtendPdu_st { int verified; int freed; };
struct KSI_ExtendResp_st { int x; int has_conf; };
struct KSI_ExtendReq_st { int x; };
typedef KSI_ExtendPdu PDU; typedef KSI_ExtendResp RESP; typedef KSI_ExtendReq REQ;
#endif

static PDU the_pdu;
static RESP the_resp, fresh_resp;
static struct KSI_Config_st the_conf, the_reqconf;
static struct KSI_ErrorPdu_st the_err;
static struct KSI_Header_st the_hdr;
static KSI_DataHash the_mac, the_reqhash;
static KSI_Integer *err_status;
static const char endpoint_pass[] = "s3cr3t";

/* symbolic member presence of the parsed PDU / the remembered request */
static int has_err, has_hdr, has_mac, has_resp, has_conf, req_has_payload, req_has_conf;
/* ghost state */
static int g_err_status_nonzero, g_parse_ok, g_parsed, g_verify_calls, g_payload_touched, g_callback_calls, g_unverified_use, g_wrong_key, g_resp_freed, g_conf_freed, g_fresh;
static const unsigned char *g_parse_raw; static size_t g_parse_len;

static int verified_now(const PDU *p) { return p == &the_pdu && the_pdu.verified && has_hdr && has_mac; }
static void use(const PDU *p) { g_payload_touched++; if (!verified_now(p)) g_unverified_use = 1; }

static int user_conf_cb(KSI_CTX *ctx, KSI_Config *conf) {
	(void)ctx;
	g_callback_calls++;
	if (!(the_pdu.verified && has_hdr && has_mac) || conf != &the_conf) g_unverified_use = 1;
	return ND(int, cb_status);
}

#define ST(tag) ND(int, tag)
/* heap KSI_Integer with any value (KSI_Integer_new would hand out a shared pool object for values < 256: same behaviour for every reader used here) */
static KSI_Integer *mk_int(u64 v) { KSI_Integer *i = malloc(sizeof(*i)); ASSUME(i != NULL); i->ref = 1; i->value = v; return i; }

#if FAM == 0
int KSI_AggregationPdu_parse(KSI_CTX *ctx, const unsigned char *raw, size_t len, KSI_AggregationPdu **t) {
	(void)ctx; g_parsed++; g_parse_raw = raw; g_parse_len = len;
	int r = ST(parse_status); if (r != KSI_OK) return r;
	g_parse_ok++; *t = &the_pdu; return KSI_OK;
}
void KSI_AggregationPdu_free(KSI_AggregationPdu *t) { if (t != NULL) t->freed++; }
int KSI_AggregationPdu_getError(const KSI_AggregationPdu *t, KSI_ErrorPdu **e) { int r = ST(geterr_status); if (r != KSI_OK) return r; *e = has_err ? &the_err : NULL; return KSI_OK; }
int KSI_AggregationPdu_verify(const KSI_AggregationPdu *pdu, const char *pass) {
	g_verify_calls++;
	if (pass != endpoint_pass) g_wrong_key = 1;
	/* contract of the real function (C06 H-3): never OK without header and MAC */
	int r = ST(verify_status);
	if (!has_hdr || !has_mac) { if (r == KSI_OK) r = KSI_INVALID_FORMAT; }
	if (r == KSI_OK && pdu == &the_pdu) the_pdu.verified = 1;
	return r;
}
int KSI_AggregationPdu_getResponse(const KSI_AggregationPdu *t, KSI_AggregationResp **r) { use(t); int s = ST(getresp_status); if (s != KSI_OK) return s; *r = has_resp ? &the_resp : NULL; return KSI_OK; }
int KSI_AggregationPdu_setResponse(KSI_AggregationPdu *t, KSI_AggregationResp *r) { use(t); (void)r; return ST(setresp_status); }
int KSI_AggregationPdu_getConfResponse(const KSI_AggregationPdu *t, KSI_Config **c) { use(t); int s = ST(getconf_status); if (s != KSI_OK) return s; *c = has_conf ? &the_conf : NULL; return KSI_OK; }
int KSI_AggregationPdu_setConfResponse(KSI_AggregationPdu *t, KSI_Config *c) { use(t); (void)c; return ST(setconf_status); }
int KSI_AggregationReq_getRequestHash(const KSI_AggregationReq *t, KSI_DataHash **h) { (void)t; int s = ST(reqhash_status); if (s != KSI_OK) return s; *h = req_has_payload ? &the_reqhash : NULL; return KSI_OK; }
int KSI_AggregationReq_getConfig(const KSI_AggregationReq *t, KSI_Config **c) { (void)t; int s = ST(reqconf_status); if (s != KSI_OK) return s; *c = req_has_conf ? &the_reqconf : NULL; return KSI_OK; }
int KSI_AggregationResp_new(KSI_CTX *ctx, KSI_AggregationResp **t) { (void)ctx; int s = ST(respnew_status); if (s != KSI_OK) return s; g_fresh++; *t = &fresh_resp; return KSI_OK; }
int KSI_AggregationResp_setConfig(KSI_AggregationResp *t, KSI_Config *c) { int s = ST(respsetconf_status); if (s != KSI_OK) return s; if (c != &the_conf || !(the_pdu.verified && has_hdr && has_mac)) g_unverified_use = 1; t->has_conf = 1; return KSI_OK; }
void KSI_AggregationResp_free(KSI_AggregationResp *t) { if (t != NULL) g_resp_freed++; }
#else
int KSI_ExtendPdu_parse(KSI_CTX *ctx, const unsigned char *raw, size_t len, KSI_ExtendPdu **t) {
	(void)ctx; g_parsed++; g_parse_raw = raw; g_parse_len = len;
	int r = ST(parse_status); if (r != KSI_OK) return r;
	g_parse_ok++; *t = &the_pdu; return KSI_OK;
}
void KSI_ExtendPdu_free(KSI_ExtendPdu *t) { if (t != NULL) t->freed++; }
int KSI_ExtendPdu_getError(const KSI_ExtendPdu *t, KSI_ErrorPdu **e) { int r = ST(geterr_status); if (r != KSI_OK) return r; *e = has_err ? &the_err : NULL; return KSI_OK; }
int KSI_ExtendPdu_getHeader(const KSI_ExtendPdu *t, KSI_Header **h) { (void)t; int r = ST(gethdr_status); if (r != KSI_OK) return r; *h = has_hdr ? &the_hdr : NULL; return KSI_OK; }
int KSI_ExtendPdu_getHmac(const KSI_ExtendPdu *t, KSI_DataHash **h) { (void)t; int r = ST(getmac_status); if (r != KSI_OK) return r; *h = has_mac ? &the_mac : NULL; return KSI_OK; }
int KSI_ExtendPdu_verifyHmac(const KSI_ExtendPdu *pdu, const char *pass) {
	g_verify_calls++;
	if (pass != endpoint_pass) g_wrong_key = 1;
	int r = ST(verify_status);
	/* contract of the real function: no MAC -> pdu_verifyHmac refuses NULL; no header -> no MAC can be computed (C06 H-2) */
	if (!has_hdr || !has_mac) { if (r == KSI_OK) r = KSI_INVALID_ARGUMENT; }
	if (r == KSI_OK && pdu == &the_pdu) the_pdu.verified = 1;
	return r;
}
int KSI_ExtendPdu_getResponse(const KSI_ExtendPdu *t, KSI_ExtendResp **r) { use(t); int s = ST(getresp_status); if (s != KSI_OK) return s; *r = has_resp ? &the_resp : NULL; return KSI_OK; }
int KSI_ExtendPdu_setResponse(KSI_ExtendPdu *t, KSI_ExtendResp *r) { use(t); (void)r; return ST(setresp_status); }
int KSI_ExtendPdu_getConfResponse(const KSI_ExtendPdu *t, KSI_Config **c) { use(t); int s = ST(getconf_status); if (s != KSI_OK) return s; *c = has_conf ? &the_conf : NULL; return KSI_OK; }
int KSI_ExtendPdu_setConfResponse(KSI_ExtendPdu *t, KSI_Config *c) { use(t); (void)c; return ST(setconf_status); }
int KSI_ExtendReq_getAggregationTime(const KSI_ExtendReq *t, KSI_Integer **h) { (void)t; int s = ST(reqhash_status); if (s != KSI_OK) return s; *h = req_has_payload ? err_status : NULL; return KSI_OK; }
int KSI_ExtendReq_getConfig(const KSI_ExtendReq *t, KSI_Config **c) { (void)t; int s = ST(reqconf_status); if (s != KSI_OK) return s; *c = req_has_conf ? &the_reqconf : NULL; return KSI_OK; }
int KSI_ExtendResp_new(KSI_CTX *ctx, KSI_ExtendResp **t) { (void)ctx; int s = ST(respnew_status); if (s != KSI_OK) return s; g_fresh++; *t = &fresh_resp; return KSI_OK; }
int KSI_ExtendResp_setConfig(KSI_ExtendResp *t, KSI_Config *c) { int s = ST(respsetconf_status); if (s != KSI_OK) return s; if (c != &the_conf || !(the_pdu.verified && has_hdr && has_mac)) g_unverified_use = 1; t->has_conf = 1; return KSI_OK; }
void KSI_ExtendResp_free(KSI_ExtendResp *t) { if (t != NULL) g_resp_freed++; }
#endif
void KSI_Config_free(KSI_Config *t) { if (t != NULL) g_conf_freed++; }
int KSI_ErrorPdu_getErrorMessage(const KSI_ErrorPdu *t, KSI_Utf8String **m) { (void)t; int s = ST(errmsg_status); if (s != KSI_OK) return s; *m = NULL; return KSI_OK; }
int KSI_ErrorPdu_getStatus(const KSI_ErrorPdu *t, KSI_Integer **st) {
	(void)t; int s = ST(errst_status); if (s != KSI_OK) return s;
	*st = ND_BOOL(err_has_status) ? err_status : NULL;
	if (*st != NULL && KSI_Integer_getUInt64(*st) != 0) g_err_status_nonzero = 1;   /* the code was handed a non-zero error status */
	return KSI_OK;
}

void harness(void) {
	VERIF_ctx_init();
	KSI_CTX *ctx = VERIF_ctx;
	int res;
	static unsigned char wire[6] = {1, 2, 3, 4, 5, 6};
	err_status = mk_int(ND(u64, err_code));

	has_err = ND_BOOL(has_err); has_hdr = ND_BOOL(has_hdr); has_mac = ND_BOOL(has_mac); has_resp = ND_BOOL(has_resp);
	has_conf = ND_BOOL(has_conf); req_has_payload = ND_BOOL(req_has_payload); req_has_conf = ND_BOOL(req_has_conf);

	static KSI_NetEndpoint ep; static KSI_NetworkClient client; static KSI_RequestHandle handle; static REQ the_req;
	ep.ctx = ctx; ep.ksi_pass = (char *)endpoint_pass; ep.ksi_user = "u";
	client.ctx = ctx; client.aggregator = &ep; client.extender = &ep;
	memset(&handle, 0, sizeof(handle));
	handle.ctx = ctx; handle.ref = 1; handle.client = &client;
	handle.response = wire; handle.response_length = sizeof(wire); handle.request = wire; handle.request_length = 2;
	handle.err.code = ND(int, http_status);
	handle.reqCtx = ND_BOOL(has_reqctx) ? &the_req : NULL;
#if FAM == 0
	ctx->options[KSI_OPT_AGGR_CONF_RECEIVED_CALLBACK] = ND_BOOL(has_cb) ? (size_t)user_conf_cb : 0;
#else
	ctx->options[KSI_OPT_EXT_CONF_RECEIVED_CALLBACK] = ND_BOOL(has_cb) ? (size_t)user_conf_cb : 0;
#endif

	RESP *out = NULL;
#if FAM == 0
	res = KSI_RequestHandle_getAggregationResponse(&handle, &out);
#else
	res = KSI_RequestHandle_getExtendResponse(&handle, &out);
#endif

	CHECK(g_parsed == 1 && g_parse_raw == wire && g_parse_len == sizeof(wire), "C06.H5 the received bytes are parsed once, as a whole");
	CHECK(!g_unverified_use, "C06.H5 payload, configuration and the configuration callback are reached only after header, MAC and verification of this PDU");
	CHECK(!g_wrong_key, "C06.H5 the PDU is verified with the endpoint's key");
	CHECK(g_verify_calls <= 1, "C06.H5 at most one verification per PDU");
	if (out != NULL) {
		CHECK(res == KSI_OK, "C06.H5 a response object is returned only with KSI_OK");
		CHECK(the_pdu.verified && has_hdr && has_mac && !has_err, "C06.H5 a response object is returned only from a verified PDU with header and MAC that is not an error PDU");
		CHECK(out == &the_resp || (out == &fresh_resp && out->has_conf), "C06.H5 the returned object is the PDU's response or a new one carrying the verified configuration");
	}
	if (has_err && g_parse_ok) {
		/* has_err, has_resp and has_conf are independent: this covers a reply that carries an error payload TOGETHER with a well-formed response
		 * and / or configuration payload (upstream test testAggregationResponseWithResponseAndErrorPayload) */
		CHECK(out == NULL && g_payload_touched == 0 && g_callback_calls == 0, "C06.H5 an error PDU delivers nothing");
		CHECK(!g_err_status_nonzero || res != KSI_OK, "C07.H5s a reply with an error payload of non-zero status is reported as an error, whatever other payloads it carries");
		if (has_resp && has_hdr && has_mac && res == KSI_SERVICE_INVALID_REQUEST) WITNESS_POINT("error payload next to a response payload: error reported, no response object");
	}
	if (res != KSI_OK) CHECK(out == NULL, "C06.H5 no response object together with an error status");
	CHECK(the_pdu.freed == g_parse_ok, "C06.H5 the PDU object is released exactly once");

	if (out == &the_resp && has_conf && !req_has_conf && g_callback_calls == 1) WITNESS_POINT("response delivered and pushed configuration handed to the callback");
	if (out == &fresh_resp) WITNESS_POINT("configuration-only response delivered");
	if (res == KSI_HMAC_MISMATCH && g_payload_touched == 0) WITNESS_POINT("MAC mismatch: nothing touched");
	if (has_err && res == KSI_SERVICE_AUTHENTICATION_FAILURE) WITNESS_POINT("error PDU reported");
	if (has_err && res == KSI_OK) WITNESS_POINT("error PDU with status 0: OK but no response object");
	if (res == KSI_HTTP_ERROR) WITNESS_POINT("unparsable reply with HTTP error status");
}
