/* C09 H-4: tree codec tlv.c: KSI_TLV_parseBlob2 -> KSI_TLV_getNestedList (one level) -> KSI_TLV_serialize_ex.
 *
 * Decomposition (measured necessity: with symbolic header bytes CBMC's symbolic execution of tlv.c's
 * allocate/recurse/cleanup code does not terminate in minutes even for 6-byte inputs, because every
 * length becomes path dependent): the header DECODING of arbitrary bytes is proved for KSI_FTLV_memRead
 * in H-1/H-2 for all byte strings; here KSI_FTLV_memRead is replaced by a model that returns, for the
 * element starting at a given offset, the instance's concrete header/payload LENGTHS and fully SYMBOLIC
 * tag, non-critical and forward flags.  So tlv.c runs on a concrete layout with symbolic tags, flags,
 * payload bytes and output-buffer size.  Checked:
 *  - parse succeeds <=> the top element spans exactly the input; expansion succeeds <=> children tile the payload
 *  - objects report exactly the decoded tag / flags / payload bytes
 *  - serialisation succeeds <=> the buffer holds the canonical encoding, whose header is two bytes exactly
 *    when tag <= 0x1f and length <= 0xff, and the bytes equal an independent reference encoding. */
#include "verif.h"
#include "internal.h"
#include "tlv.h"
#include "fast_tlv.h"
#include "ctx.h"
#include "verif_post.h"
#ifndef NCH
#define NCH 1
#endif
#ifndef TOP_HDR
#define TOP_HDR 2           /* header length of the top element in the input: 2 or 4 */
#endif
#ifndef CH_HDR
#define CH_HDR {2, 2, 2, 2}
#endif
#ifndef CH_LEN
#define CH_LEN {2, 0, 0, 0}
#endif
#ifndef RAWPAY
#define RAWPAY 0            /* raw payload bytes when NCH == 0 */
#endif
#ifndef OUTSZ
#define OUTSZ (TOP_HDR + PLEN)
#endif
#ifndef STRAY
#define STRAY 0          /* 1: the top element's payload holds one extra byte behind its last child (PLEN includes it) */
#endif
#ifndef BRK
#define BRK (-1)            /* -1 well-formed; k>=0: child k declares one byte more than it has; 100: top declares one more; 101: top declares one less */
#endif
/* PLEN (real payload length of the top element) is computed by the plan generator (compile-time constant) */
#define L (TOP_HDR + PLEN)
#define NEL (NCH + 1)
static const int ch_hdr[4] = CH_HDR, ch_len[4] = CH_LEN;
static u8 in[L];
static unsigned el_off[5], el_hdr[5], el_decl[5];      /* concrete layout */
static unsigned el_tag[5]; static int el_nc[5], el_fw[5];  /* symbolic */

/* model of fast_tlv.c KSI_FTLV_memRead: concrete lengths from the layout, symbolic tag and flags */
int KSI_FTLV_memRead(const unsigned char *m, size_t l, KSI_FTLV *t) {
	if (m == NULL || t == NULL) return KSI_INVALID_ARGUMENT;
	size_t o = (size_t)(m - in);
	for (unsigned k = 0; k < NEL; k++) {
		if (el_off[k] == o) {
			t->off = 0; t->hdr_len = el_hdr[k]; t->dat_len = el_decl[k];
			t->tag = el_tag[k]; t->is_nc = el_nc[k]; t->is_fwd = el_fw[k];
			if (l < 2 || l < el_hdr[k] || l < (size_t)el_hdr[k] + el_decl[k]) return KSI_INVALID_FORMAT;
			return KSI_OK;
		}
	}
	/* stray-byte layouts (STRAY = 1): one leftover byte behind the last child; H-1 proves that the real reader
	 * refuses any buffer shorter than two bytes */
	if (l < 2) return KSI_INVALID_FORMAT;
	CHECK(0, "C09.H4 model: header read at an offset that starts no element of the layout");
	return KSI_INVALID_FORMAT;
}
/* independent reference encoder: returns encoded length, writes to out (capacity 64) */
static unsigned ref_put(u8 *out, unsigned o, unsigned tag, int nc, int fw, unsigned len) {
	if (tag > 0x1f || len > 0xff) { out[o] = 0x80 | (nc ? 0x40 : 0) | (fw ? 0x20 : 0) | (u8)(tag >> 8); out[o + 1] = (u8)tag; out[o + 2] = (u8)(len >> 8); out[o + 3] = (u8)len; return 4; }
	out[o] = (nc ? 0x40 : 0) | (fw ? 0x20 : 0) | (u8)tag; out[o + 1] = (u8)len; return 2;
}
void harness(void) {
	VERIF_ctx_init(); KSI_CTX *ctx = VERIF_ctx;
	/* layout + symbolic attributes */
	unsigned off = TOP_HDR;
	el_off[0] = 0; el_hdr[0] = TOP_HDR; el_decl[0] = PLEN;
	for (unsigned k = 0; k < NCH; k++) { el_off[1 + k] = off; el_hdr[1 + k] = ch_hdr[k]; el_decl[1 + k] = ch_len[k]; off += ch_hdr[k] + ch_len[k]; }
	for (unsigned k = 0; k < NEL; k++) {
		el_tag[k] = ND(unsigned, tag); ASSUME(el_tag[k] <= 0x1fff);
		if (el_hdr[k] == 2) ASSUME(el_tag[k] <= 0x1f);      /* a two-byte header cannot carry more than 5 tag bits */
		el_nc[k] = ND_BOOL(nc); el_fw[k] = ND_BOOL(fw);
	}
	for (unsigned i = 0; i < L; i++) in[i] = ND(u8, in);     /* header bytes are irrelevant to the model; payload bytes matter */
	int wrong_top = 0, wrong_child = 0;
#if BRK == 100
	el_decl[0] = PLEN + 1; wrong_top = 1;
#elif BRK == 101
	el_decl[0] = PLEN - 1; wrong_top = 1;
#elif BRK >= 0
	el_decl[1 + BRK] = ch_len[BRK] + 1; wrong_child = 1;      /* overruns the parent's payload (last child) or the next sibling */
#endif
	KSI_TLV *tlv = NULL;
	int res = KSI_TLV_parseBlob2(ctx, in, L, 0, &tlv);
	CHECK((res == KSI_OK) == !wrong_top, "C09.H4 parseBlob2 accepts exactly one element spanning the whole input");
#if BRK >= 100
	CHECK(tlv == NULL, "C09.H4 no object on parse error"); WITNESS_POINT("mis-sized top element rejected");
}
#else
	if (res != KSI_OK) return;
	CHECK(KSI_TLV_getTag(tlv) == el_tag[0], "C09.H4 tag as decoded");
	CHECK((KSI_TLV_isNonCritical(tlv) != 0) == (el_nc[0] != 0) && (KSI_TLV_isForward(tlv) != 0) == (el_fw[0] != 0), "C09.H4 flags as decoded");
	const unsigned char *raw = NULL; size_t rawlen = 0;
	res = KSI_TLV_getRawValue(tlv, &raw, &rawlen);
	CHECK(res == KSI_OK && rawlen == PLEN, "C09.H4 payload length as decoded");
	for (unsigned i = 0; i < PLEN; i++) CHECK(raw[i] == in[TOP_HDR + i], "C09.H4 payload bytes are the input's");
#if NCH > 0
	KSI_LIST(KSI_TLV) *lst = NULL;
	res = KSI_TLV_getNestedList(tlv, &lst);
#if STRAY
	CHECK(res != KSI_OK, "C09.H4 a payload with a leftover byte behind its last element is not exactly tiled: expansion fails");
	WITNESS_POINT("leftover byte rejected");
	KSI_TLV_free(tlv);
}
#elif BRK >= 0 && BRK < 100
	CHECK(res != KSI_OK, "C09.H4 a child overrunning its parent's payload makes the expansion fail");
	WITNESS_POINT("overrunning child rejected");
	KSI_TLV_free(tlv);
}
#else
	CHECK(res == KSI_OK && KSI_TLVList_length(lst) == NCH, "C09.H4 exactly tiled payload expands to its elements");
	for (unsigned k = 0; k < NCH; k++) {
		KSI_TLV *c = NULL; KSI_TLVList_elementAt(lst, k, &c);
		CHECK(KSI_TLV_getTag(c) == el_tag[1 + k] && (KSI_TLV_isNonCritical(c) != 0) == (el_nc[1 + k] != 0) && (KSI_TLV_isForward(c) != 0) == (el_fw[1 + k] != 0), "C09.H4 nested element reports decoded tag and flags");
	}
	WITNESS_POINT("nested elements expanded");
#define SERIALISE_PART 1
#endif
#else
#define SERIALISE_PART 1
#endif
#ifdef SERIALISE_PART
	/* reference encoding */
	u8 ref[64]; unsigned rl = 0;
#if NCH > 0
	u8 body[64]; unsigned bl = 0;
	for (unsigned k = 0; k < NCH; k++) {
		bl += ref_put(body, bl, el_tag[1 + k], el_nc[1 + k], el_fw[1 + k], ch_len[k]);
		for (int j = 0; j < ch_len[k]; j++) body[bl++] = in[el_off[1 + k] + ch_hdr[k] + j];
	}
	rl = ref_put(ref, 0, el_tag[0], el_nc[0], el_fw[0], bl);
	for (unsigned j = 0; j < 60; j++) if (j < bl) ref[rl + j] = body[j];
	rl += bl;
#else
	rl = ref_put(ref, 0, el_tag[0], el_nc[0], el_fw[0], RAWPAY);
	for (unsigned j = 0; j < RAWPAY; j++) ref[rl + j] = in[TOP_HDR + j];
	rl += RAWPAY;
#endif
	const size_t S = OUTSZ;   /* output buffer size: concrete per instance (a symbolic size made the copy loop of KSI_TLV_writeBytes intractable) */
	u8 *out = verif_buf_alloc(S); size_t outlen = 999;
	int r2 = KSI_TLV_serialize_ex(tlv, out, S, &outlen);
	CHECK((r2 == KSI_OK) == (S >= rl), "C09.H4 serialisation succeeds iff the buffer holds the canonical encoding");
	if (r2 == KSI_OK) {
		CHECK(outlen == rl, "C09.H4 serialised length: two-byte header exactly when tag <= 0x1f and length <= 0xff");
		int same = 1;
		for (unsigned i = 0; i < 64; i++) if (i < rl && out[i] != ref[i]) same = 0;
		CHECK(same, "C09.H4 serialised bytes equal the reference encoding of the same tree");
#if OUTSZ >= TOP_HDR + PLEN
		WITNESS_POINT("serialised into a sufficient buffer");
#endif
	}
	WITNESS_POINT("serialisation decided");
	verif_buf_free(out, S);
	KSI_TLV_free(tlv);
}
#endif /* SERIALISE_PART */
#endif /* BRK < 100 */
