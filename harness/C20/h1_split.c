/* C20 H-1: uriSplit (net.c, with the real http_parser_parse_url) and KSI_UriSplitBasic return exactly the
 * parts a well-formed service URI was assembled from (generator: common/c20_uri.h - concrete shape per
 * instance, every character symbolic within its RFC 3986 class, every scheme letter in either case,
 * port = decimal rendering of a symbolic value).
 * Expected (from the URI syntax, not from the code): scheme as written; user / key = the text before / after
 * the first ':' of the user-info; host = the host text (for an IPv6 literal the address inside the
 * brackets - the form name resolution takes); port = the number, 0 when absent; path including its leading
 * '/', query and fragment without their '?' / '#'; an absent part is returned as NULL. */
#include "verif.h"
#include "internal.h"
#include "ctx.h"
#include "verif_post.h"
#include "net.c"               /* reach the static uriSplit */
#include "c20_uri.h"

void harness(void) {
	VERIF_ctx_init();
	c20_build();
#ifndef C20_BASIC
	char *scheme = NULL, *user = NULL, *pass = NULL, *host = NULL, *path = NULL, *query = NULL, *frag = NULL;
	unsigned port = 777777;
	int res = uriSplit(C20.uri, &scheme, &user, &pass, &host, &port, &path, &query, &frag);
	CHECK(res == KSI_OK, "C20.H1 uriSplit accepts every well-formed service URI");
#ifdef C20_KNOWN_FC20_3   /* shape hit by known finding F-C20-3: the accepting path does not exist until the parser is fixed */
	if (res != KSI_OK) WITNESS_POINT("fragment directly after the authority refused (known finding F-C20-3)");
#endif
	if (res == KSI_OK) {
		CHECK(c20_streq(scheme, C20.scheme, C20_SLEN), "C20.H1 uriSplit scheme is the scheme as written");
#if C20_HAS_UI
		CHECK(c20_streq(user, C20.user, C20_ULEN), "C20.H1 uriSplit user is the text before the first colon of the user-info");
		CHECK(c20_streq(pass, C20.key, C20_KLEN), "C20.H1 uriSplit key is the text after the first colon of the user-info");
#else
		CHECK(user == NULL && pass == NULL, "C20.H1 uriSplit reports no user and key when there is no user-info");
#endif
#if C20_HOSTKIND == 3
		CHECK(host == NULL, "C20.H1 uriSplit reports no host for an empty authority");
#else
		CHECK(c20_streq(host, C20.host, C20_HOSTLEN), "C20.H1 uriSplit host is the host put in");
#endif
		CHECK(port == C20.port, "C20.H1 uriSplit port is the decimal port put in, 0 when absent");
#if C20_PLEN > 0
		CHECK(c20_streq(path, C20.path, C20_PLEN), "C20.H1 uriSplit path is the path put in");
#else
		CHECK(path == NULL, "C20.H1 uriSplit reports no path when there is none");
#endif
#if C20_QLEN > 0
		CHECK(c20_streq(query, C20.query, C20_QLEN), "C20.H1 uriSplit query is the query put in");
#else
		CHECK(query == NULL, "C20.H1 uriSplit reports no query when there is none");
#endif
#if C20_FLEN > 0
		CHECK(c20_streq(frag, C20.frag, C20_FLEN), "C20.H1 uriSplit fragment is the fragment put in");
#else
		CHECK(frag == NULL, "C20.H1 uriSplit reports no fragment when there is none");
#endif
#ifndef C20_KNOWN_FC20_3
		WITNESS_POINT("uri split");
#if C20_PDIG == 5
		if (port == 65535) WITNESS_POINT("largest port");
#endif
#if C20_PDIG == 1
		if (port == 1) WITNESS_POINT("smallest port");
#endif
#endif
	}
	KSI_free(scheme); KSI_free(user); KSI_free(pass); KSI_free(host); KSI_free(path); KSI_free(query); KSI_free(frag);
#else
	/* the public subset */
	int res;
	char *bs = NULL, *bh = NULL, *bp = NULL; unsigned bport = 777777;
	res = KSI_UriSplitBasic(C20.uri, &bs, &bh, &bport, &bp);
	CHECK(res == KSI_OK, "C20.H1 KSI_UriSplitBasic accepts every well-formed service URI");
	if (res == KSI_OK) {
		CHECK(c20_streq(bs, C20.scheme, C20_SLEN) && (C20_HOSTKIND == 3 ? bh == NULL : c20_streq(bh, C20.host, C20_HOSTLEN)) && bport == C20.port,
			"C20.H1 KSI_UriSplitBasic returns scheme, host and port put in");
#if C20_PLEN > 0
		CHECK(c20_streq(bp, C20.path, C20_PLEN), "C20.H1 KSI_UriSplitBasic path is the path put in");
#else
		CHECK(bp == NULL, "C20.H1 KSI_UriSplitBasic reports no path when there is none");
#endif
		WITNESS_POINT("uri split (basic)");
	}
	KSI_free(bs); KSI_free(bh); KSI_free(bp);
#endif
}
