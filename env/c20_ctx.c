/* Context / allocator model for the C20 (service URI) harnesses - used INSTEAD of env/ctx.c.
 * Same content as env/ctx.c (static context, error counter, empty logging) except for the allocator:
 * KSI_malloc / KSI_calloc hand out objects of the CONSTANT size C20_ALLOC_MAX (and assert that the requested
 * size fits).  Reason: net.c copies every URI component into a buffer of strlen()+1 bytes; for CBMC that is
 * a symbolic size even though the shape of the URI is fixed, and heap objects of symbolic size are encoded
 * with the array theory (measured: 4.3 M variables / 240 s for one uriSplit call versus seconds with constant
 * sizes).  Consequence, stated in the manifest: with this model CBMC cannot see a write between the requested
 * size and C20_ALLOC_MAX, i.e. the C20 harnesses check WHAT the functions return / pass on, not the exact
 * bounds of these heap copies (one exact-size instance of h1_split is kept in the thorough tier with env/ctx.c).
 * Bytes beyond the requested size are left uninitialised (= unconstrained for CBMC), so code that wrongly
 * depended on them could only fail a check, never pass one by accident.
 * Under -DREPLAY the allocator is plain malloc/calloc (ASan then checks exact bounds). */
#include "internal.h"
#include "impl/ctx_impl.h"
#include "verif.h"
#ifdef C20_TYPED_ASYNC_SERVICE
#include "net_async.h"
#include "impl/net_async_impl.h"
#endif
#ifndef C20_ALLOC_MAX
#define C20_ALLOC_MAX 64
#endif

struct KSI_CTX_st VERIF_ctx_obj;
KSI_CTX *VERIF_ctx = &VERIF_ctx_obj;
unsigned VERIF_err_pushes;
unsigned VERIF_alloc_count;
unsigned VERIF_fault_at;
int VERIF_fault_hit;

void *KSI_malloc(size_t size) {
#ifndef REPLAY
	VERIF_alloc_count++;
#ifdef C20_TYPED_ASYNC_SERVICE
	/* net.c allocates the service object with KSI_malloc(sizeof(KSI_AsyncService)) instead of KSI_new: give CBMC the
	 * typed object (its function-pointer fields must stay visible to constant propagation).  Only used by h4_async,
	 * where every requested size is a constant, so this test is decided during symbolic execution. */
	if (size == sizeof(KSI_AsyncService)) return malloc(sizeof(KSI_AsyncService));
#endif
	__CPROVER_assert(size <= C20_ALLOC_MAX, "C20 allocator model: request fits the constant object size");
	return malloc(C20_ALLOC_MAX);
#else
	return malloc(size);
#endif
}
void *KSI_calloc(size_t num, size_t size) {
#ifndef REPLAY
	__CPROVER_assert(num <= C20_ALLOC_MAX && size <= C20_ALLOC_MAX && num * size <= C20_ALLOC_MAX, "C20 allocator model: calloc request fits the constant object size");
	VERIF_alloc_count++;
	return calloc(C20_ALLOC_MAX, 1);
#else
	return calloc(num, size);
#endif
}
void KSI_free(void *ptr) { if (ptr != NULL) free(ptr); }

void KSI_ERR_push(KSI_CTX *ctx, int statusCode, long extErrorCode, const char *fileName, unsigned int lineNr, const char *message) {
	(void)extErrorCode; (void)fileName; (void)lineNr; (void)message;
	if (ctx == NULL) return;
	if (statusCode == KSI_OK) return;
	ctx->errors_count++;
	VERIF_err_pushes++;
}
void KSI_ERR_clearErrors(KSI_CTX *ctx) { if (ctx != NULL) ctx->errors_count = 0; }
int KSI_LOG_debug(KSI_CTX *ctx, char *format, ...) { (void)ctx; (void)format; return KSI_OK; }
int KSI_LOG_info(KSI_CTX *ctx, char *format, ...) { (void)ctx; (void)format; return KSI_OK; }
int KSI_LOG_notice(KSI_CTX *ctx, char *format, ...) { (void)ctx; (void)format; return KSI_OK; }
int KSI_LOG_warn(KSI_CTX *ctx, char *format, ...) { (void)ctx; (void)format; return KSI_OK; }
int KSI_LOG_error(KSI_CTX *ctx, char *format, ...) { (void)ctx; (void)format; return KSI_OK; }
const char *KSI_getErrorString(int statusCode) { (void)statusCode; return "err"; }

void VERIF_ctx_init(void) {
	memset(&VERIF_ctx_obj, 0, sizeof(VERIF_ctx_obj));
	VERIF_ctx_obj.options[KSI_OPT_AGGR_PDU_VER] = KSI_AGGREGATION_PDU_VERSION;
	VERIF_ctx_obj.options[KSI_OPT_EXT_PDU_VER] = KSI_EXTENDING_PDU_VERSION;
	VERIF_ctx_obj.logLevel = KSI_LOG_NONE;
	VERIF_err_pushes = 0;
	VERIF_alloc_count = 0;
}
