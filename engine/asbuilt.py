#!/usr/bin/env python3
"""print the per-property 'as built' section of DESIGN.md from harness/*/plan.json"""
import json, glob, os
V = os.path.dirname(os.path.dirname(os.path.abspath(__file__)))
for p in sorted(glob.glob(os.path.join(V, "harness", "C*", "plan.json"))):
    d = json.load(open(p)); pid = d["property"]; m = d.get("manifest", {})
    print("#### %s" % pid)
    print("*Claim (bounded):* %s\n" % m.get("level_text", "").strip())
    print("*Trusted base / outside:* %s\n" % m.get("level_note", "").strip())
    if d.get("outside"):
        print("*Outside the bounds:* %s\n" % d["outside"])
    print("| harness | quick instances | thorough instances | real functions executed (excerpt) | bound |")
    print("|---|---|---|---|---|")
    for h in d["harnesses"]:
        if h.get("disabled"):
            continue
        q = 0 if h.get("tier") == "thorough" else len(h.get("instances", [1]))
        t = len(h.get("thorough", {}).get("instances", h.get("instances", [1])))
        print("| %s | %d | %d | %s | %s |" % (h["name"], q, t, ", ".join(h.get("functions", [])[:6]), str(h.get("bound", ""))[:260].replace("|", "/")))
    print()
