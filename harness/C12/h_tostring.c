/* C12 H-tostring: the string renderers that append with `len += KSI_snprintf(buf + len, size - len, ...)`:
 * KSI_DataHash_toString, KSI_OctetString_toString, KSI_TLV_toString (stringify), track_str (tlv_template.c).
 * Real code: the renderer, KSI_snprintf / KSI_vsnprintf (compatibility.c); vsnprintf = contract model returning
 * ANY int (env/c12_vsnprintf_any.c).  The output buffer is an exact-size heap object of BUFSZ bytes (concrete per
 * instance); the rendered object has a concrete shape and symbolic contents.
 * Checked: no access outside the buffer (CBMC bounds checks), termination, result is the buffer (or NULL where
 * documented) and NUL-terminated whenever at least one formatting call was made into a non-empty buffer. */
#include "verif.h"
#include "internal.h"
#include "tlv.h"
#include "ctx.h"
#include "verif_post.h"
#ifdef H_TRACK
#include "tlv_template.c"      /* reach the static track_str */
#endif

#ifndef BUFSZ
#define BUFSZ 8
#endif
#ifndef OLEN
#define OLEN 3
#endif
extern unsigned VERIF_vsn_calls;

static int has_nul(const char *b) { for (unsigned i = 0; i < BUFSZ; i++) if (b[i] == 0) return 1; return 0; }

void harness(void) {
	VERIF_ctx_init();
	KSI_CTX *ctx = VERIF_ctx;
	int res;
	char *buf = (char *)verif_buf_alloc(BUFSZ);
	for (unsigned i = 0; i < BUFSZ; i++) buf[i] = (char)0x55;
#if defined(H_DATAHASH)
	u8 dg[20]; for (unsigned i = 0; i < 20; i++) dg[i] = ND(u8, dg);
	KSI_DataHash *h = NULL;
	res = KSI_DataHash_fromDigest(ctx, KSI_HASHALG_SHA1, dg, 20, &h); ASSUME(res == KSI_OK);
	char *r = KSI_DataHash_toString(h, buf, BUFSZ);
	CHECK(r == buf, "C12.tostring DataHash_toString returns the buffer");
#if BUFSZ > 0
	CHECK(VERIF_vsn_calls >= 1 && has_nul(buf), "C12.tostring DataHash_toString output is NUL-terminated");
	WITNESS_POINT("data hash rendered");
#else
	CHECK(VERIF_vsn_calls == 0, "C12.tostring DataHash_toString does not format into an empty buffer");
	WITNESS_POINT("empty buffer");
#endif
	CHECK(KSI_DataHash_toString(NULL, buf, BUFSZ) == NULL && KSI_DataHash_toString(h, NULL, BUFSZ) == NULL, "C12.tostring DataHash_toString rejects NULL arguments");
	KSI_DataHash_free(h);
#elif defined(H_OCTET)
	u8 *raw = verif_buf_alloc(OLEN);
	for (unsigned i = 0; i < OLEN; i++) raw[i] = ND(u8, raw);
	KSI_OctetString *o = NULL;
	res = KSI_OctetString_new(ctx, raw, OLEN, &o); ASSUME(res == KSI_OK);
	char sep = (char)ND(u8, sep);
	char *r = KSI_OctetString_toString(o, sep, buf, BUFSZ);
#if BUFSZ == 0 || OLEN == 0
	CHECK(r == NULL, "C12.tostring OctetString_toString returns NULL for an empty buffer or an empty octet string");
	WITNESS_POINT("nothing to render");
#else
	CHECK(r == NULL || (r == buf && has_nul(buf)), "C12.tostring OctetString_toString returns NULL or the NUL-terminated buffer");
#if BUFSZ >= 2
	if (r == buf) WITNESS_POINT("octet string rendered");
#endif
	if (r == NULL) WITNESS_POINT("octet string rendering gave up");
#endif
	KSI_OctetString_free(o);
	verif_buf_free(raw, OLEN);
#elif defined(H_TLV)
	/* a nested element with two children (one of them with a 2-octet payload) parsed from bytes and expanded */
	u8 in[10] = {0x01, 0x08, 0x02, 0x02, 0, 0, 0x03, 0x02, 0, 0};
	in[4] = ND(u8, p); in[5] = ND(u8, p); in[8] = ND(u8, p); in[9] = ND(u8, p);
	KSI_TLV *tlv = NULL;
	res = KSI_TLV_parseBlob2(ctx, in, sizeof(in), 0, &tlv); ASSUME(res == KSI_OK);
#if TLVNEST
	{ KSI_LIST(KSI_TLV) *l = NULL; res = KSI_TLV_getNestedList(tlv, &l); ASSUME(res == KSI_OK); }
#endif
	char *r = KSI_TLV_toString(tlv, buf, BUFSZ);
	CHECK(r == buf, "C12.tostring TLV_toString returns the buffer");
#if BUFSZ > 0
	CHECK(has_nul(buf), "C12.tostring TLV_toString output is NUL-terminated");
	WITNESS_POINT("tlv rendered");
#else
	CHECK(VERIF_vsn_calls == 0, "C12.tostring TLV_toString does not format into an empty buffer");
	WITNESS_POINT("empty buffer");
#endif
	KSI_TLV_free(tlv);
#elif defined(H_TRACK)
	/* as called by extract*: tr = 15 entries, tr_size = sizeof(tr) (bytes), tr_len = nesting depth so far (<= 7 for
	 * the deepest template path AggregationPdu > Resp > AggregationHashChain > HashChainLink > MetaData, + 1) */
	struct tlv_track_s tr[0xf];
	for (unsigned i = 0; i < 0xf; i++) { tr[i].tag = ND(unsigned, tag); tr[i].desc = ND_BOOL(hasdesc) ? "d" : NULL; }
	size_t tr_len = ND(size_t, trlen);
	ASSUME(tr_len <= 8);
	char *r = track_str(tr, tr_len, sizeof(tr), buf, BUFSZ);
	CHECK(r == buf && has_nul(buf), "C12.tostring track_str returns the NUL-terminated buffer");
	if (tr_len == 8) WITNESS_POINT("deepest track rendered");
	if (tr_len == 0) WITNESS_POINT("empty track rendered");
#endif
	verif_buf_free((u8 *)buf, BUFSZ);
}
