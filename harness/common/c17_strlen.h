/* C17: strlen model for CBMC runs (the native replay uses libc's strlen).
 * KSI_base32Decode starts with strlen() on a string whose characters are symbolic.  With CBMC's built-in
 * strlen every symbolic character is a possible terminator, the length becomes a symbolic choice and the
 * calloc() that follows gets a symbolic size (measured: 7.7 GB, no answer).  The harness therefore states
 * the length it expects (c17_expected_len, concrete) and this model PROVES it: it asserts that no earlier
 * character is NUL and that the character at the expected end is NUL (assert-then-assume), then returns
 * the concrete length.  A harness that wants an embedded NUL sets the expected length accordingly. */
#ifndef C17_STRLEN_H_
#define C17_STRLEN_H_
#ifndef C17_STRMAX
#define C17_STRMAX 96
#endif
static size_t c17_expected_len;
#ifndef REPLAY
size_t strlen(const char *s) {
	for (size_t i = 0; i < C17_STRMAX; i++) {
		if (i < c17_expected_len) {
			__CPROVER_assert(s[i] != 0, "CHECK C17.STRLEN no NUL before the length the harness expects");
			__CPROVER_assume(s[i] != 0);
		}
	}
	__CPROVER_assert(c17_expected_len < C17_STRMAX && s[c17_expected_len] == 0, "CHECK C17.STRLEN string ends where the harness expects");
	return c17_expected_len;
}
#endif
#endif
