/* memcpy / memmove as plain byte loops (ISO C semantics; memmove copies in the direction that is safe for
 * overlapping regions).  Used instead of CBMC's built-in models where code under test may - in a defective
 * version - call them with a SYMBOLIC size: the built-in models then build variable-length array copies that the
 * symbolic executor does not finish, whereas a loop is cut by the unwinding bound (harness_unwind) and reported.
 * With a concrete size the loop unrolls exactly.  Every byte access is checked by CBMC / ASan as usual. */
#include <stddef.h>
#include "verif.h"
/* Optional guarded region: a harness may register a buffer that is a MEMBER of a larger object (CBMC and ASan only
 * see the bounds of the enclosing object).  Every memcpy / memmove whose source or destination starts inside the
 * region must then stay inside it. */
const unsigned char *VERIF_mm_guard_base; size_t VERIF_mm_guard_len;
static void mm_guard(const unsigned char *p, size_t n) {
#ifndef REPLAY
	if (VERIF_mm_guard_base == NULL || !__CPROVER_same_object(p, VERIF_mm_guard_base)) return;   /* relational operators only within one object */
#endif
	if (VERIF_mm_guard_base != NULL && n > 0 && p >= VERIF_mm_guard_base && p < VERIF_mm_guard_base + VERIF_mm_guard_len)
		CHECK((size_t)(p - VERIF_mm_guard_base) + n <= VERIF_mm_guard_len, "MEMGUARD memcpy/memmove stays inside the guarded buffer (no access outside the buffer)");
}
void *memcpy(void *dst, const void *src, size_t n) {
	unsigned char *d = (unsigned char *)dst; const unsigned char *s = (const unsigned char *)src;
	mm_guard(s, n); mm_guard(d, n);
	for (size_t i = 0; i < n; i++) d[i] = s[i];
	return dst;
}
void *memmove(void *dst, const void *src, size_t n) {
	unsigned char *d = (unsigned char *)dst; const unsigned char *s = (const unsigned char *)src;
	mm_guard(s, n); mm_guard(d, n);
	if ((const unsigned char *)d <= s) { for (size_t i = 0; i < n; i++) d[i] = s[i]; }
	else { for (size_t i = n; i > 0; i--) d[i - 1] = s[i - 1]; }
	return dst;
}
