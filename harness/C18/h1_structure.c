/* C18 H-1: record structure of a publications file and the signed range.
 *
 * Real code: KSI_PublicationsFile_parse, generateNextTlv and the KSI_PublicationsFile template rows
 * (publicationsfile.c, included below), the template engine (tlv_template.c: extractGenerator, extractComposite,
 * extractObject, storeObjectValue), tlv.c (KSI_TLV_parseBlob2, nested parsing), fast_tlv.c (KSI_FTLV_memRead),
 * list.c, the record constructors/destructors (types.c), KSI_PKISignature_fromTlv (pkitruststore.c),
 * KSI_PublicationsFile_verify.
 * Stubbed: (1) the INTERNALS of header / certificate / publication records - the three sub-template names
 * used by the top-level template rows are redirected to one-row stub templates (record internals are the
 * subject of C10), (2) PKCS#7 parsing and verification (env/c18_pki_model.c: "DER parses" and the verdict are
 * symbolic outcomes).
 *
 * Input = magic (8 symbolic bytes) + NREC records + TRAIL trailing bytes, minus CUT bytes cut off the end.
 * Concrete per instance: NREC, per record the header form (TLV16 with tag 0x07xx / TLV8 with tag 0x05), the
 * N (non-critical) and F flags, the payload length; symbolic: the low tag byte of every TLV16 record (so every
 * sequence over {0x0701 header, 0x0702 certificate, 0x0703 publication, 0x0704 signature, 0x0700/0x0705..0x07ff
 * unknown} is covered by one query), all payload bytes, the magic.  (The first header byte has to be concrete:
 * it decides the header length, and CBMC needs concrete lengths.)
 * A non-empty payload is one nested element "0x5f len bytes.." (non-critical, unknown to the stub templates),
 * so it is acceptable as content of a composite record, as signature bytes and as unknown record alike.
 *
 * Reference (from the property text / file format, over the tag sequence):
 *   phases: 0 start -> header -> 1 -> (certificates)* -> (publications)* 2 -> signature -> 3 end
 *   header: only in phase 0; certificate: only in phase 1; publication: phase 1 or 2; signature: phase 1 or 2;
 *   unknown tag: ignored if flagged non-critical (any phase before 3), otherwise refused; nothing at all after
 *   the signature; accepted iff magic is "KSIPUBLF", the records tile the input exactly, the final phase is 3
 *   and the signature bytes are non-empty and parse (model outcome);
 *   signedDataLength = 8 + total size of the records before the signature record.
 *   One deviation is checked separately (see FINDINGS.md): a REPEATED header record flagged non-critical. */
#include "verif.h"
#include "internal.h"
#include "impl/publicationsfile_impl.h"
#include "impl/ctx_impl.h"
#include "tlv_template.h"
#include "ctx.h"
#include "c18_pki_model.h"
#include "verif_post.h"

/* ---- stub sub-templates (record internals) ---- */
static unsigned stub_hits;
static int stub_get(const void *o, void **v) { (void)o; *v = NULL; return KSI_OK; }
static int stub_set(void *o, void *v) { (void)o; (void)v; return KSI_OK; }
static int stub_fromTlv(KSI_TLV *tlv, void **o) { (void)tlv; stub_hits++; *o = NULL; return KSI_OK; }
static void stub_free(void *o) { (void)o; }
#define STUB_TEMPLATE(name) const KSI_TlvTemplate name[] = { \
	KSI_TLV_OBJECT(0x01, KSI_TLV_TMPL_FLG_NONE, stub_get, stub_set, stub_fromTlv, NULL, stub_free, "stub") KSI_END_TLV_TEMPLATE
STUB_TEMPLATE(C18_stub_header_template)
STUB_TEMPLATE(C18_stub_cert_template)
STUB_TEMPLATE(C18_stub_pub_template)
/* ---- cut with proof obligation: the byte-level header decoder (README lesson 12) ----
 * Branches on symbolic header bytes make every later length path dependent and the allocate / recurse / clean-up
 * code of tlv.c and publicationsfile.c intractable.  All calls of KSI_FTLV_memRead made by tlv.c and
 * publicationsfile.c (both included below as text) are redirected to cut_memRead, which runs the REAL
 * KSI_FTLV_memRead (fast_tlv.c, linked) on the same arguments, CHECKs that it reports exactly the header and
 * payload lengths this instance put at that position (or the expected refusal), and returns those CONSTANT
 * lengths together with the real, symbolic tag and flags.  (KSI_FTLV_memRead itself is proved against the
 * format for all inputs by C09.) */
#include "fast_tlv.h"
static int cut_memRead(const unsigned char *m, size_t l, KSI_FTLV *t);
#define KSI_FTLV_memRead cut_memRead
#include "tlv.c"
#define KSI_PublicationsHeader_template C18_stub_header_template
#define KSI_CertificateRecord_template C18_stub_cert_template
#define KSI_PublicationRecord_template C18_stub_pub_template
#include "publicationsfile.c"
#undef KSI_PublicationsHeader_template
#undef KSI_CertificateRecord_template
#undef KSI_PublicationRecord_template
#undef KSI_FTLV_memRead

#ifndef NREC
#define NREC 2
#endif
#ifndef FORMS
#define FORMS {16, 16, 16, 16}      /* 16: TLV16 record with tag 0x07xx (xx symbolic); 8: TLV8 record with tag 0x05 */
#endif
#ifndef NFLAGS
#define NFLAGS {-1, -1, -1, -1}     /* non-critical flag per record: 0 / 1 concrete, -1 symbolic */
#endif
#ifndef FFLAGS
#define FFLAGS {-1, -1, -1, -1}     /* forward flag per record: 0 / 1 concrete, -1 symbolic */
#endif
#ifndef PLENS
#define PLENS {3, 2, 4, 3}          /* payload length per record: 0 or >= 2 */
#endif
#ifndef TAGS
#define TAGS {-1, -1, -1, -1}       /* low tag byte per TLV16 record: -1 symbolic, else that concrete value */
#endif
#ifndef TRAIL
#define TRAIL 0                     /* bytes after the last record */
#endif
#ifndef CUT
#define CUT 0                       /* bytes cut off the end of the input (truncated last record) */
#endif
#define MAXREC 4
#define MAXBUF 64

static const int form[MAXREC] = FORMS, nfl_c[MAXREC] = NFLAGS, ffl_c[MAXREC] = FFLAGS, plen[MAXREC] = PLENS, ctag[MAXREC] = TAGS;

static const u8 *cut_raw;                 /* the input object */
static unsigned cut_off[MAXREC + 1];      /* offset (from the start of the input) of record i; [NREC] = end of the records */
static unsigned cut_cur;                  /* record whose private copy is being parsed */
static unsigned cut_calls;
static int cut_memRead(const unsigned char *m, size_t l, KSI_FTLV *t) {
#ifdef REPLAY
	return KSI_FTLV_memRead(m, l, t);
#else
	KSI_FTLV real;
	int res = KSI_FTLV_memRead(m, l, &real);
	unsigned e_hdr = 0, e_dat = 0; int known = 0;
	cut_calls++;
	if (__CPROVER_same_object(m, cut_raw)) {
		/* generateNextTlv reading the next record of the input */
		size_t o = __CPROVER_POINTER_OFFSET(m);
		for (unsigned i = 0; i < NREC; i++) if (o == cut_off[i]) { known = 1; cut_cur = i; e_hdr = (form[i] == 16) ? 4 : 2; e_dat = (unsigned)plen[i]; }
		/* o == cut_off[NREC]: trailing bytes, never a complete element in this harness (TRAIL <= 1) */
	} else {
		/* tlv.c reading from the private copy of record cut_cur: offset 0 = the record itself, offset = its header length = its nested element */
		size_t o = __CPROVER_POINTER_OFFSET(m);
		unsigned rh = (form[cut_cur] == 16) ? 4 : 2;
		if (o == 0) { known = 1; e_hdr = rh; e_dat = (unsigned)plen[cut_cur]; }
		else if (o == rh && plen[cut_cur] >= 2) { known = 1; e_hdr = 2; e_dat = (unsigned)plen[cut_cur] - 2; }
	}
	int e_ok = known && l >= e_hdr + e_dat;
	CHECK(known || (l < 2), "C18.H1 [cut] every position the TLV reader is applied to is a record, its copy, its nested element or a single trailing byte");
	CHECK((res == KSI_OK) == e_ok && (res == KSI_OK || res == KSI_INVALID_FORMAT), "C18.H1 [cut] KSI_FTLV_memRead accepts exactly the complete elements of the generated input");
	if (res == KSI_OK) CHECK(real.off == 0 && real.hdr_len == e_hdr && real.dat_len == e_dat, "C18.H1 [cut] KSI_FTLV_memRead reports the header and payload length generated at this position");
	if (!e_ok) return KSI_INVALID_FORMAT;
	t->off = 0; t->hdr_len = e_hdr; t->dat_len = e_dat;
	t->tag = real.tag; t->is_nc = real.is_nc; t->is_fwd = real.is_fwd;
	return KSI_OK;
#endif
}

void harness(void) {
	VERIF_ctx_init(); VERIF_pki_init();
	KSI_CTX *ctx = VERIF_ctx;
	u8 buf[MAXBUF]; unsigned n = 0;
	unsigned tag[MAXREC], off[MAXREC], size[MAXREC]; int nfl[MAXREC], ffl[MAXREC];
	static const char magic[8] = {'K', 'S', 'I', 'P', 'U', 'B', 'L', 'F'};
	int magic_ok = 1;
	for (unsigned i = 0; i < 8; i++) { buf[n] = ND(u8, magic_byte); if (buf[n] != (u8)magic[i]) magic_ok = 0; n++; }
	for (unsigned i = 0; i < NREC; i++) {
		off[i] = n - 8;
		nfl[i] = (nfl_c[i] >= 0) ? nfl_c[i] : (int)ND_BOOL(noncritical_flag);
		ffl[i] = (ffl_c[i] >= 0) ? ffl_c[i] : (int)ND_BOOL(forward_flag);
		if (form[i] == 16) {
			u8 lo = (ctag[i] >= 0) ? (u8)ctag[i] : ND(u8, tag_low);
			buf[n++] = (u8)(0x80 | (nfl[i] ? 0x40 : 0) | (ffl[i] ? 0x20 : 0) | 0x07);
			buf[n++] = lo; buf[n++] = 0; buf[n++] = (u8)plen[i];
			tag[i] = 0x0700u | lo;
		} else {
			buf[n++] = (u8)((nfl[i] ? 0x40 : 0) | (ffl[i] ? 0x20 : 0) | 0x05);
			buf[n++] = (u8)plen[i];
			tag[i] = 0x05;
		}
		if (plen[i] >= 2) {
			buf[n++] = 0x5f; buf[n++] = (u8)(plen[i] - 2);
			for (int k = 2; k < plen[i]; k++) buf[n++] = ND(u8, payload_byte);
		}
		size[i] = n - 8 - off[i];
	}
	for (unsigned i = 0; i < TRAIL; i++) buf[n++] = ND(u8, trailing_byte);
	const unsigned total = n - CUT;
	u8 *raw = verif_buf_alloc(total);           /* exact-size input object */
	for (unsigned i = 0; i < MAXBUF; i++) if (i < total) raw[i] = buf[i];
	cut_raw = raw; cut_cur = 0; cut_calls = 0;
	for (unsigned i = 0; i < NREC; i++) cut_off[i] = 8 + off[i];
	cut_off[NREC] = 8 + (NREC ? off[NREC - 1] + size[NREC - 1] : 0);

	/* ---- reference: grammar over the tag sequence ---- */
	int phase = 0, bad = 0, dup_nc_header = 0; unsigned ncert = 0, npub = 0, sig_idx = MAXREC;
	for (unsigned i = 0; i < NREC; i++) {
		if (phase == 3) { bad = 1; continue; }                 /* nothing after the signature */
		switch (tag[i]) {
			case 0x0701:
				if (phase == 0) phase = 1;
				else if (nfl[i]) dup_nc_header = 1;                /* separately checked deviation */
				else bad = 1;
				break;
			case 0x0702: if (phase == 1) ncert++; else bad = 1; break;
			case 0x0703: if (phase == 1 || phase == 2) { phase = 2; npub++; } else bad = 1; break;
			case 0x0704: if (phase == 1 || phase == 2) { phase = 3; sig_idx = i; } else bad = 1; break;
			default: if (!nfl[i]) bad = 1; break;                  /* unknown: only tolerated when non-critical */
		}
	}
	const int tiles = (TRAIL == 0 && CUT == 0);                /* TRAIL = 1 byte can never be a record; CUT truncates one */
	const int structure_ok = magic_ok && tiles && !bad && phase == 3;
	const int sig_nonempty = (sig_idx < MAXREC) && plen[sig_idx < MAXREC ? sig_idx : 0] > 0;

	KSI_PublicationsFile *pf = NULL;
	unsigned sig_new0 = VERIF_pki_sig_new_calls;
	int res = KSI_PublicationsFile_parse(ctx, raw, total, &pf);
	/* did the model accept the signature bytes?  (it is asked at most once: there is at most one signature record) */
	const int der_ok = (VERIF_pki_sig_der_ok == 1);

	if (!dup_nc_header) {
		if (!structure_ok) {
			CHECK(res != KSI_OK && pf == NULL, "C18.H1 a file that is not magic + header, certificates*, publications*, signature (unknown non-critical records tolerated, nothing after the signature) is refused");
			if (magic_ok && tiles && NREC > 0) WITNESS_POINT("wrong record order refused");
		} else if (!sig_nonempty) {
			CHECK(res != KSI_OK && pf == NULL, "C18.H1 an empty signature record is refused");
		} else {
			CHECK(VERIF_pki_sig_new_calls == sig_new0 + 1, "C18.H1 the signature bytes are handed to the PKI layer exactly once");
			CHECK((res == KSI_OK) == der_ok, "C18.H1 a well-structured file is accepted iff its signature bytes parse");
		}
	} else {
		CHECK(res != KSI_OK, "C18.H1 a repeated header record is refused even when it is flagged non-critical");
	}
	if (res == KSI_OK) {
		CHECK(pf != NULL && magic_ok, "C18.H1 acceptance yields a file object and implies the magic KSIPUBLF");
		if (pf != NULL && !dup_nc_header) {
			size_t sdl = 0; unsigned exp_sdl = 8;
			for (unsigned i = 0; i < NREC; i++) if (i < sig_idx) exp_sdl += size[i];
			CHECK(KSI_PublicationsFile_getSignedDataLength(pf, &sdl) == KSI_OK && sdl == exp_sdl && exp_sdl == 8 + off[sig_idx < MAXREC ? sig_idx : 0],
				"C18.H1 signedDataLength is the offset of the signature record (magic + all records before it)");
			int same = (pf->raw != NULL && pf->raw != raw && pf->raw_len == total);
			for (unsigned i = 0; i < MAXBUF; i++) if (same && i < total && pf->raw[i] != buf[i]) same = 0;
			CHECK(same, "C18.H1 the file object keeps a private copy of exactly the input bytes");
			CHECK(pf->header != NULL && pf->signature != NULL, "C18.H1 an accepted file has a header and a signature");
			CHECK(KSI_CertificateRecordList_length(pf->certificates) == ncert && KSI_PublicationRecordList_length(pf->publications) == npub,
				"C18.H1 every certificate and publication record of the input is in the file object, nothing else");
			/* the signed range that reaches the PKI layer */
			int v = KSI_PublicationsFile_verify(pf, ctx);
			CHECK(VERIF_pki_last.count == 1 && VERIF_pki_last.data == pf->raw && VERIF_pki_last.data_len == exp_sdl && VERIF_pki_last.signature == pf->signature && v == VERIF_pki_last.verdict,
				"C18.H1 verification passes exactly the bytes before the signature record and the parsed signature to the PKI layer");
#if NREC >= 3
			if (ncert + npub >= 1 && sig_idx == NREC - 1) WITNESS_POINT("file with records accepted");
#endif
#if NREC >= 2
			if (sig_idx == 1) WITNESS_POINT("minimal file header+signature accepted");
#endif
		}
		KSI_PublicationsFile_free(pf);
	} else {
		CHECK(pf == NULL, "C18.H1 no file object on refusal");
	}
#if NREC == 0
	WITNESS_POINT("file without records refused");
#endif
	verif_buf_free(raw, total);
}
