/* Reference counting and destructors of KSI_MetaData / KSI_MetaDataElement, re-stated from types.c
 * (KSI_IMPLEMENT_REF at types.c:205-206, KSI_MetaDataElement_free types.c:210-222, KSI_MetaData_free
 * types.c:553-561).  Used by harnesses that need these four functions but must not link types.c:
 * types.c address-takes ~100 destructors and getters which CBMC would consider as targets of every
 * indirect call of a compatible signature (list element destructors, metadata callbacks) - measured:
 * symbolic execution of a two-leaf tree did not finish in 5 minutes with types.c linked.
 * TRUSTED BASE: this text must agree with types.c (checked by reading; 20 lines). */
#include "internal.h"
#include "impl/meta_data_impl.h"
#include "impl/meta_data_element_impl.h"
#include "tlv_element.h"

/* the real macro of internal.h, instantiated exactly as in types.c:205-206 */
KSI_IMPLEMENT_REF(KSI_MetaDataElement);
KSI_IMPLEMENT_REF(KSI_MetaData);

void KSI_MetaDataElement_free(KSI_MetaDataElement *t) {
	if (t != NULL && --t->ref == 0) {
		KSI_TlvElement_free(t->impl);
		KSI_OctetString_free(t->padding);
		KSI_Utf8String_free(t->clientId);
		KSI_Utf8String_free(t->machineId);
		KSI_Integer_free(t->sequenceNr);
		KSI_Integer_free(t->reqTimeInMicros);
		KSI_free(t);
	}
}

void KSI_MetaData_free(KSI_MetaData *t) {
	if (t != NULL && --t->ref == 0) {
		KSI_Utf8String_free(t->clientId);
		KSI_Utf8String_free(t->machineId);
		KSI_Integer_free(t->reqTimeInMicros);
		KSI_Integer_free(t->sequenceNr);
		KSI_free(t);
	}
}
