/* C02 H-6: the public verification wrappers hand the caller's document hash and level to the verifier unchanged
 * and turn every non-OK verdict into a non-OK return code.
 * Real code: signature_helper.c KSI_Signature_verifyWithPolicy, base.c KSI_verifyDataHash (+ real KSI_ERR_push / clearErrors).
 * Stub: KSI_SignatureVerifier_verify (the subject of H-5 / C01) records what it is given and returns an arbitrary
 * status and verdict; KSI_PolicyVerificationResult_free.
 * Oracle (API documentation of KSI_Signature_verifyWithPolicy in signature_helper.h and property text):
 *   level > 255                      -> refused, verifier not consulted
 *   otherwise the verifier sees exactly (policy, sig, docHsh, rootLevel) and the wrapper returns KSI_OK  iff
 *   the verifier returned KSI_OK with verdict OK. */
#include "verif.h"
#include "internal.h"
#include "policy.h"
#include "signature_helper.h"
#include "impl/ctx_impl.h"
#include "impl/signature_impl.h"
#include "impl/hash_impl.h"
#include "verif_post.h"

static struct KSI_CTX_st the_ctx;
static KSI_ERR the_errs[1];   /* error ring of size 1 (KSI_CTX_new uses 16): the ring is not the subject, a ring of one keeps its index concrete */

static unsigned ver_calls;
static const KSI_Policy *seen_policy;
static const KSI_DataHash *seen_doc;
static KSI_uint64_t seen_level;
static KSI_Signature *seen_sig;
static void *seen_tmp;
static int ver_res, ver_rc;
static KSI_PolicyVerificationResult the_result;
static unsigned free_calls;

int KSI_SignatureVerifier_verify(const KSI_Policy *policy, KSI_VerificationContext *context, KSI_PolicyVerificationResult **result) {
	ver_calls++;
	seen_policy = policy; seen_doc = context->documentHash; seen_level = context->docAggrLevel; seen_sig = context->signature; seen_tmp = context->tempData;
	if (ver_res == KSI_OK) {
		memset(&the_result, 0, sizeof(the_result));
		the_result.ref = 1;
		the_result.finalResult.resultCode = (KSI_VerificationResultCode)ver_rc;
		the_result.resultCode = (KSI_VerificationResultCode)ver_rc;
		*result = &the_result;
	}
	return ver_res;
}
void KSI_PolicyVerificationResult_free(KSI_PolicyVerificationResult *result) { if (result != NULL) free_calls++; }
int KSI_VerificationContext_init(KSI_VerificationContext *context, KSI_CTX *ctx) {   /* body of policy.c:931 (policy.c is not linked here) */
	if (context == NULL || ctx == NULL) return KSI_INVALID_ARGUMENT;
	memset(context, 0, sizeof(*context));
	context->ctx = ctx;
	return KSI_OK;
}

/* policies are opaque here: the wrappers only pass the pointer on (policy.c is not linked) */
static const struct { const void *a, *b, *c; } pol_general, pol_other;
const KSI_Policy *KSI_VERIFICATION_POLICY_GENERAL = (const KSI_Policy *)&pol_general;

void harness(void) {
	memset(&the_ctx, 0, sizeof(the_ctx));
	the_ctx.errors = the_errs; the_ctx.errors_size = 1;
	KSI_CTX *ctx = &the_ctx;

	static KSI_Signature sig; memset(&sig, 0, sizeof(sig)); sig.ctx = ctx; sig.ref = 1;
	static KSI_DataHash doc; memset(&doc, 0, sizeof(doc)); doc.ctx = ctx; doc.ref = 1; doc.imprint_length = 21;
	for (int i = 0; i < 21; i++) doc.imprint[i] = ND(u8, doc);
	doc.imprint[0] = 0;
	_Bool with_doc = ND_BOOL(with_doc);
	const KSI_DataHash *d = with_doc ? &doc : NULL;
	KSI_uint64_t level = ND(u64, level);
	ver_res = ND(int, ver_res); ver_rc = ND(int, ver_rc);
	ASSUME(ver_rc == KSI_VER_RES_OK || ver_rc == KSI_VER_RES_NA || ver_rc == KSI_VER_RES_FAIL);
	const KSI_Policy *policy = (const KSI_Policy *)&pol_other;

#if ENTRY == 0
	int res = KSI_Signature_verifyWithPolicy(&sig, d, level, policy, NULL);
	if (level > 255) {
		CHECK(res != KSI_OK && ver_calls == 0, "C02.H6 verifyWithPolicy refuses a level above 255 without consulting the verifier");
		WITNESS_POINT("level above 255 refused by the wrapper");
	} else {
		CHECK(ver_calls == 1 && seen_policy == policy && seen_sig == &sig && seen_doc == d && seen_level == level, "C02.H6 verifyWithPolicy passes policy, signature, document hash and level on unchanged");
		CHECK((res == KSI_OK) == (ver_res == KSI_OK && ver_rc == KSI_VER_RES_OK), "C02.H6 verifyWithPolicy returns KSI_OK exactly for an OK verdict");
		if (ver_res == KSI_OK && ver_rc != KSI_VER_RES_OK) CHECK(res == KSI_VERIFICATION_FAILURE, "C02.H6 a non-OK verdict becomes KSI_VERIFICATION_FAILURE");
		if (ver_res != KSI_OK) CHECK(res == ver_res, "C02.H6 an error status of the verifier is returned");
		CHECK(free_calls == (ver_res == KSI_OK ? 1u : 0u), "C02.H6 the verification result is released exactly once");
		if (res == KSI_OK && with_doc && level == 255) WITNESS_POINT("OK verdict passed through");
		if (ver_res == KSI_OK && ver_rc == KSI_VER_RES_NA) WITNESS_POINT("inconclusive verdict becomes a failure code");
	}
#elif ENTRY == 2
	/* with a caller-supplied verification context: the caller may supply a document hash and a level through the
	 * arguments, through the context, or both.  Property-level oracle: no supplied hash and no supplied level is dropped -
	 * either the call is refused, or the verifier is consulted with a document hash equal to EVERY supplied one and a
	 * level not below ANY supplied one; everything else in the context is passed on unchanged. */
	static KSI_DataHash doc2; memset(&doc2, 0, sizeof(doc2)); doc2.ctx = ctx; doc2.ref = 1; doc2.imprint_length = 21;
	for (int i = 0; i < 21; i++) doc2.imprint[i] = ND(u8, doc2);
	doc2.imprint[0] = 0;
	static KSI_VerificationContext vc; memset(&vc, 0, sizeof(vc));
	static const struct { const void *a; } m_pub, m_pubfile;
	vc.ctx = ctx;
	vc.documentHash = ND_BOOL(ctx_has_doc) ? &doc2 : NULL;
	vc.docAggrLevel = ND(u64, ctx_level);
	vc.userPublication = (KSI_PublicationData *)&m_pub; vc.userPublicationsFile = (KSI_PublicationsFile *)&m_pubfile;
	vc.extendingAllowed = ND_BOOL(ctx_ext) ? 1 : 0;
	const KSI_DataHash *cdoc = vc.documentHash; KSI_uint64_t clevel = vc.docAggrLevel; int cext = vc.extendingAllowed;
	int same = 1; for (int i = 0; i < 21; i++) if (doc.imprint[i] != doc2.imprint[i]) same = 0;
	int res = KSI_Signature_verifyWithPolicy(&sig, d, level, policy, &vc);
	CHECK(vc.documentHash == cdoc && vc.docAggrLevel == clevel && vc.extendingAllowed == cext && vc.signature == NULL, "C02.H6 the caller's verification context is not modified");
	if (level > 255) {
		CHECK(res != KSI_OK && ver_calls == 0, "C02.H6 verifyWithPolicy refuses a level above 255 without consulting the verifier");
	} else if (ver_calls == 0) {
		CHECK(res != KSI_OK, "C02.H6 not consulting the verifier is a refusal");
		CHECK(d != NULL && cdoc != NULL && !same, "C02.H6 with a context the call is refused only for two different document hashes");
		WITNESS_POINT("two different document hashes refused");
	} else {
		CHECK(ver_calls == 1 && seen_policy == policy && seen_sig == &sig, "C02.H6 policy and signature passed on");
		if (d != NULL) CHECK(seen_doc == d || (seen_doc == cdoc && same), "C02.H6 a document hash supplied as argument is verified even when a context is given");
		if (cdoc != NULL) CHECK(seen_doc == cdoc || (seen_doc == d && same), "C02.H6 a document hash supplied through the context is verified");
		if (d == NULL && cdoc == NULL) CHECK(seen_doc == NULL, "C02.H6 no document hash is invented");
		CHECK(seen_level >= level && seen_level >= clevel && (seen_level == level || seen_level == clevel), "C02.H6 no supplied level is dropped: the verifier sees the larger of argument and context level");
		CHECK((res == KSI_OK) == (ver_res == KSI_OK && ver_rc == KSI_VER_RES_OK), "C02.H6 verifyWithPolicy returns KSI_OK exactly for an OK verdict");
		if (d != NULL && cdoc == NULL) WITNESS_POINT("argument hash with a context that has none");
		if (d == NULL && cdoc != NULL && clevel == 7) WITNESS_POINT("context hash and level only");
		if (d != NULL && cdoc != NULL && same && res == KSI_OK) WITNESS_POINT("same hash twice");
	}
#else
	ASSUME(with_doc);
	int res = KSI_verifyDataHash(ctx, &sig, d);
	CHECK(ver_calls == 1 && seen_policy == KSI_VERIFICATION_POLICY_GENERAL && seen_sig == &sig && seen_doc == d && seen_level == 0, "C02.H6 verifyDataHash verifies the given hash at level 0 under the general policy");
	CHECK((res == KSI_OK) == (ver_res == KSI_OK && ver_rc == KSI_VER_RES_OK), "C02.H6 verifyDataHash returns KSI_OK exactly for an OK verdict");
	if (res == KSI_OK) WITNESS_POINT("verifyDataHash OK");
	if (ver_res == KSI_OK && ver_rc == KSI_VER_RES_FAIL) WITNESS_POINT("verifyDataHash FAIL verdict");
#endif
}
