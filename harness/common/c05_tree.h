/* c05_tree.h - rule-tree builder, instrumented per-slot rule functions and the reference interpreter
 * for the policy-engine harnesses (C05 H-1 / H-1b; reused by C11 H-3).
 *
 * Tree layout: the complete C05_W-ary tree of depth C05_D.  List 0 is the root list; list l has the slots
 * l*W .. l*W+W-1; the child list of slot s (when s is a composite) is list s+1.  Lists of depth C05_D hold basic
 * rules only.  The SKELETON (which slot is a composite) is the compile-time constant C05_KIND = {k0,k1,...}
 * (one 0/1 per slot, breadth first); everything else is symbolic:
 *   - the length 1..W of every reachable list (shorter list = NULL terminator earlier; only trailing BASIC slots
 *     are cut off, see c05_build),
 *   - the AND/OR label of every composite slot,
 *   - the outcome of every basic rule: any status code, result code OK / NA / FAIL, any error code
 *     (a superset of the five outcome classes OK, NA, FAIL, NA+KSI_VER_ERR_NONE, internal error).
 * Every slot has its own rule function c05_rule_<s>; it records a sequence number and a call count.
 *
 * Reference interpreter c05_reference(): written from policy.h:206-235 and the property text, deliberately in a
 * different style from policy.c (no recursion, no cursor: list outcomes are computed bottom-up, invocation
 * sequence numbers are then distributed top-down). */
#ifndef VERIF_C05_TREE_H_
#define VERIF_C05_TREE_H_

#ifndef C05_W
#define C05_W 2
#endif
#ifndef C05_D
#define C05_D 2
#endif
#if C05_D == 1
#define C05_NLISTS (1 + C05_W)
#elif C05_D == 2
#define C05_NLISTS (1 + C05_W + C05_W * C05_W)
#elif C05_D == 3
#define C05_NLISTS (1 + C05_W + C05_W * C05_W + C05_W * C05_W * C05_W)
#else
#error "C05_D must be 1..3"
#endif
#define C05_NSLOTS (C05_NLISTS * C05_W)
#define C05_MAXSLOTS 40
#if C05_NSLOTS > C05_MAXSLOTS
#error "too many slots"
#endif
#ifndef C05_KIND
#define C05_KIND {0}
#endif
#ifndef C05_NNAMES
#define C05_NNAMES 3
#endif

static const int c05_kind[C05_MAXSLOTS] = C05_KIND;       /* 1 = composite */

/* ---- symbolic choices (filled by c05_build) ---- */
static unsigned c05_len[C05_NLISTS];                       /* 1..W */
static int c05_is_and[C05_MAXSLOTS];                       /* composite slots: 1 = AND, 0 = OR */
static int c05_res[C05_MAXSLOTS], c05_rc[C05_MAXSLOTS], c05_ec[C05_MAXSLOTS];   /* basic slots: outcome */
static const char c05_names[C05_MAXSLOTS][2];              /* rule names: only their addresses matter */
static const char *c05_nameptr[C05_MAXSLOTS];
/* ---- instrumentation ---- */
static unsigned c05_clock;
static unsigned c05_seq[C05_MAXSLOTS], c05_calls[C05_MAXSLOTS];
/* hook for harnesses that want to observe / touch the context inside a rule */
#ifndef C05_RULE_HOOK
#define C05_RULE_HOOK(k, vc, r) ((void)0)
#endif

#define C05_SLOT_FN(k) \
int c05_rule_##k(KSI_VerificationContext *vc, KSI_RuleVerificationResult *r) { \
	c05_calls[k]++; \
	c05_seq[k] = ++c05_clock; \
	C05_RULE_HOOK(k, vc, r); \
	r->resultCode = (KSI_VerificationResultCode)c05_rc[k]; \
	r->errorCode = (KSI_VerificationErrorCode)c05_ec[k]; \
	r->ruleName = c05_nameptr[k]; \
	return c05_res[k]; \
}
#define C05_SLOTS(X) \
	X(0) X(1) X(2) X(3) X(4) X(5) X(6) X(7) X(8) X(9) X(10) X(11) X(12) X(13) X(14) X(15) X(16) X(17) X(18) X(19) \
	X(20) X(21) X(22) X(23) X(24) X(25) X(26) X(27) X(28) X(29) X(30) X(31) X(32) X(33) X(34) X(35) X(36) X(37) X(38) X(39)
C05_SLOTS(C05_SLOT_FN)
#define C05_FN_ENTRY(k) c05_rule_##k,
typedef int (*c05_fn_t)(KSI_VerificationContext *, KSI_RuleVerificationResult *);
static const c05_fn_t c05_fn[C05_MAXSLOTS] = { C05_SLOTS(C05_FN_ENTRY) };

static KSI_Rule c05_L[C05_NLISTS][C05_W + 1];
static int c05_reach[C05_NLISTS];                          /* concrete: list is referenced by a composite slot */
static int c05_skeleton_ok;

/* Build the rule arrays.  shared_names != 0: the rule-name pointer of every basic rule is one of C05_NNAMES
 * shared names (symbolic choice), as when one rule function occurs several times in a policy. */
static void c05_build(int shared_names) {
	unsigned l, p;
	c05_clock = 0;
	c05_skeleton_ok = 1;
	for (l = 0; l < C05_NLISTS; l++) c05_reach[l] = 0;
	c05_reach[0] = 1;
	for (l = 0; l < C05_NLISTS; l++) {
		if (!c05_reach[l]) continue;
		unsigned n = ND(u8, len), minlen = 1;
		/* A composite slot of the skeleton is always present (its child pointer stays a concrete address: a
		 * NULL-or-array pointer makes symex chase the NULL case through the recursion); only trailing basic slots
		 * are cut off by the symbolic length.  Every tree with list lengths 1..W is still covered: it is an
		 * instance of the skeleton that has basic slots at the cut-off positions. */
		for (p = 0; p < C05_W; p++) if (c05_kind[l * C05_W + p]) minlen = p + 1;
		ASSUME(n >= minlen && n <= C05_W);         /* documented: a rule array holds at least one rule before the empty rule */
		c05_len[l] = n;
		for (p = 0; p < C05_W; p++) {
			unsigned s = l * C05_W + p;
			c05_seq[s] = 0; c05_calls[s] = 0;
			if (c05_kind[s]) {
				if (s + 1 >= C05_NLISTS) { c05_skeleton_ok = 0; continue; }
				c05_reach[s + 1] = 1;
				c05_is_and[s] = ND_BOOL(is_and);
				c05_L[l][p].type = c05_is_and[s] ? KSI_RULE_TYPE_COMPOSITE_AND : KSI_RULE_TYPE_COMPOSITE_OR;
				c05_L[l][p].rule = (const void *)&c05_L[s + 1][0];
			} else {
				int rc = ND(int, rc);
				ASSUME(rc == KSI_VER_RES_OK || rc == KSI_VER_RES_NA || rc == KSI_VER_RES_FAIL);
				c05_res[s] = ND(int, res); c05_rc[s] = rc; c05_ec[s] = ND(int, ec);
				if (shared_names) {
					unsigned ni = ND(u8, name); ASSUME(ni < C05_NNAMES);
					c05_nameptr[s] = &c05_names[ni][0];
				} else {
					c05_nameptr[s] = &c05_names[s][0];
				}
				c05_L[l][p].type = KSI_RULE_TYPE_BASIC;
				c05_L[l][p].rule = (p < n) ? (const void *)c05_fn[s] : NULL;
			}
		}
		/* the final empty rule: the real tables end with {BASIC, NULL} or {COMPOSITE_OR, NULL}; any type here */
		unsigned tt = ND(u8, term_type); ASSUME(tt <= 2);
		c05_L[l][C05_W].type = tt == 0 ? KSI_RULE_TYPE_BASIC : tt == 1 ? KSI_RULE_TYPE_COMPOSITE_AND : KSI_RULE_TYPE_COMPOSITE_OR;
		c05_L[l][C05_W].rule = NULL;
	}
}

/* ---- reference interpreter ---- */
struct c05_out { int res, rc, ec; };
static struct c05_out c05_exp;                             /* expected status / result code / error code */
static struct c05_out c05_lo[C05_NLISTS];                  /* outcome of list l, were it evaluated */
static int c05_active[C05_NLISTS];                         /* list l is evaluated */
static unsigned c05_exp_seq[C05_MAXSLOTS];                 /* expected sequence number of every basic slot, 0 = not invoked */
static unsigned c05_exp_count;                             /* expected number of rule invocations */

static void c05_reference(void) {
	static unsigned lcnt[C05_NLISTS];          /* ... and the number of basic rules it would invoke */
	static unsigned off[C05_MAXSLOTS];         /* invocations inside list before slot s is reached */
	static int ev[C05_MAXSLOTS];               /* slot s is evaluated whenever its list is */
	static unsigned base[C05_NLISTS];
	int l; unsigned p;
	for (l = C05_NLISTS - 1; l >= 0; l--) {
		int go = 1; unsigned cnt = 0;
		struct c05_out out = {KSI_UNKNOWN_ERROR, KSI_VER_RES_NA, KSI_VER_ERR_GEN_2};
		lcnt[l] = 0;
		if (!c05_reach[l]) continue;
		for (p = 0; p < C05_W; p++) {
			unsigned s = (unsigned)l * C05_W + p;
			struct c05_out o;
			ev[s] = go && p < c05_len[l];
			if (!ev[s]) continue;
			off[s] = cnt;
			if (c05_kind[s]) { o = c05_lo[s + 1]; cnt += lcnt[s + 1]; }
			else { o.res = c05_res[s]; o.rc = c05_rc[s]; o.ec = c05_ec[s]; cnt += 1; }
			out = o;                                       /* the reported result is that of the last rule evaluated */
			if (o.res != KSI_OK) go = 0;                   /* an error ends the evaluation */
			else if (o.rc == KSI_VER_RES_FAIL) go = 0;     /* so does a FAIL */
			else if (o.rc == KSI_VER_RES_OK) go = !(c05_kind[s] && !c05_is_and[s]);   /* basic/AND continue on OK, OR ends its list */
			else go = (c05_kind[s] && !c05_is_and[s]);     /* inconclusive: only an OR element passes on to the next */
		}
		c05_lo[l] = out; lcnt[l] = cnt;
	}
	c05_exp = c05_lo[0]; c05_exp_count = lcnt[0];
	for (l = 0; l < C05_NLISTS; l++) c05_active[l] = 0;
	c05_active[0] = 1; base[0] = 0;
	for (l = 0; l < C05_NLISTS; l++) {
		if (!c05_reach[l]) continue;
		for (p = 0; p < C05_W; p++) {
			unsigned s = (unsigned)l * C05_W + p;
			int on = c05_active[l] && ev[s];
			if (c05_kind[s]) { c05_active[s + 1] = on; base[s + 1] = base[l] + off[s]; }
			else c05_exp_seq[s] = on ? base[l] + off[s] + 1 : 0;
		}
	}
}
#endif
