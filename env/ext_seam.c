/* see ext_seam.h */
#include "ext_seam.h"
#include "ksi.h"
#include "net.h"
#include "impl/net_impl.h"
#include "verif.h"

struct ext_seam VERIF_ext;
static struct KSI_NetHandle_st the_handle;      /* the real handle type; the rule code treats it as opaque */

void VERIF_ext_init(void) {
	memset(&VERIF_ext, 0, sizeof(VERIF_ext));
	memset(&the_handle, 0, sizeof(the_handle));
}

int KSI_sendExtenderRequest(KSI_CTX *ctx, KSI_ExtendReq *request, KSI_RequestHandle **handle) {
	KSI_Integer *t = NULL, *id = NULL;
	if (ctx == NULL || request == NULL || handle == NULL) return KSI_INVALID_ARGUMENT;
	VERIF_ext.sends++;
	if (KSI_ExtendReq_getAggregationTime(request, &t) == KSI_OK && t != NULL) { VERIF_ext.req_has_start = 1; VERIF_ext.req_start = KSI_Integer_getUInt64(t); }
	t = NULL;
	if (KSI_ExtendReq_getPublicationTime(request, &t) == KSI_OK && t != NULL) { VERIF_ext.req_has_end = 1; VERIF_ext.req_end = KSI_Integer_getUInt64(t); }
	if (VERIF_ext.send_res != KSI_OK) return VERIF_ext.send_res;
	if (KSI_ExtendReq_getRequestId(request, &id) == KSI_OK && id == NULL) {
		if (KSI_ExtendReq_setRequestId(request, VERIF_ext.req_id_obj) != KSI_OK) return KSI_UNKNOWN_ERROR;
		VERIF_ext.req_id_obj = NULL;
	}
	memset(&the_handle, 0, sizeof(the_handle)); the_handle.ctx = ctx; the_handle.ref = 1;
	*handle = &the_handle;
	return KSI_OK;
}

int KSI_RequestHandle_perform(KSI_RequestHandle *handle) {
	if (handle == NULL) return KSI_INVALID_ARGUMENT;
	VERIF_ext.performs++;
	if (VERIF_ext.perform_res != KSI_OK) return VERIF_ext.perform_res;
	handle->completed = true;
	return KSI_OK;
}

int KSI_RequestHandle_getExtendResponse(const KSI_RequestHandle *handle, KSI_ExtendResp **resp) {
	if (handle == NULL || resp == NULL) return KSI_INVALID_ARGUMENT;
	VERIF_ext.gets++;
	if (VERIF_ext.get_res != KSI_OK) return VERIF_ext.get_res;
	*resp = VERIF_ext.resp;
	VERIF_ext.resp = NULL;
	return KSI_OK;
}

void KSI_RequestHandle_free(KSI_RequestHandle *handle) {
	if (handle != NULL) VERIF_ext.handle_frees++;
}

int KSI_receivePublicationsFile(KSI_CTX *ctx, KSI_PublicationsFile **pubFile) {
	if (ctx == NULL || pubFile == NULL) return KSI_INVALID_ARGUMENT;
	VERIF_ext.pubfile_fetches++;
	if (VERIF_ext.pubfile_res != KSI_OK) return VERIF_ext.pubfile_res;
	*pubFile = KSI_PublicationsFile_ref(VERIF_ext.pubfile);
	return KSI_OK;
}

int KSI_verifyPublicationsFile(KSI_CTX *ctx, const KSI_PublicationsFile *pubFile) {
	if (ctx == NULL || pubFile == NULL) return KSI_INVALID_ARGUMENT;
	VERIF_ext.pubfile_verifies++;
	return VERIF_ext.pubfile_verify_res;
}

/* base.c:1011 KSI_ERR_getBaseErrorMessage / compatibility.c:82 KSI_strdup: only used to decorate an inconclusive result with the text of
 * the first error (HANDLE_RESOURCE_FAILURE, KSI_RuleVerificationResult_dup).  The text is not the subject: the message is the empty string
 * and a duplicate of any string is a fresh empty string.  (Reading the caller's char buf[256] would exceed CBMC's field-sensitivity limit
 * of 64 array elements and turn every access symbolic - measured: 3.4M instead of 0.1M variables.) */
int KSI_ERR_getBaseErrorMessage(KSI_CTX *ctx, char *buf, size_t len, int *error, int *ext) {
	if (ctx == NULL || buf == NULL) return KSI_INVALID_ARGUMENT;
	if (len > 0) buf[0] = 0;
	if (error != NULL) *error = KSI_OK;
	if (ext != NULL) *ext = 0;
	return KSI_OK;
}
int KSI_strdup(const char *from, char **to) {
	char *t;
	if (from == NULL || to == NULL) return KSI_INVALID_ARGUMENT;
	t = (char *)malloc(1);
	if (t == NULL) return KSI_OUT_OF_MEMORY;
	t[0] = 0;
	*to = t;
	return KSI_OK;
}
