/* C10 H-sig: checkSignatureInternals (signature_builder.c, static; called by KSI_SignatureBuilder_close, i.e. by every
 * KSI_Signature_parse*) against the structural rules of a KSI signature:
 *   (1) at least one aggregation hash chain,
 *   (2) a calendar authentication record or a publication record requires a calendar hash chain,
 *   (3) calendar authentication record and publication record exclude each other.
 * Shape (concrete per instance): AGGR = 0: no list, 1: empty list, 2: list with one chain.  Presence of the other
 * components is symbolic.  Rejections must be reported as KSI_INVALID_FORMAT (the code all callers test for). */
#include "verif.h"
#include "internal.h"
#include "ctx.h"
#include "verif_post.h"
#include "signature_builder.c"

#ifndef AGGR
#define AGGR 2
#endif

void harness(void) {
	VERIF_ctx_init();
	KSI_CTX *ctx = VERIF_ctx;
	static struct KSI_Signature_st sig;
	static long cal, car, pub, chain;   /* stand-ins: the function only tests the component pointers for NULL */
	int res;

	memset(&sig, 0, sizeof(sig));
	sig.ctx = ctx; sig.ref = 1;
	_Bool has_cal = ND_BOOL(has_cal), has_car = ND_BOOL(has_car), has_pub = ND_BOOL(has_pub);
	sig.calendarChain = has_cal ? (void *)&cal : NULL;
	sig.calendarAuthRec = has_car ? (void *)&car : NULL;
	sig.publication = has_pub ? (void *)&pub : NULL;
#if AGGR >= 1
	KSI_List *l = NULL;
	res = KSI_List_new(NULL, &l); ASSUME(res == KSI_OK && l != NULL);
	sig.aggregationChainList = (void *)l;
#if AGGR >= 2
	res = KSI_List_append(l, &chain); ASSUME(res == KSI_OK);
#endif
#endif
	(void)chain;

	res = checkSignatureInternals(ctx, &sig);

	int ok = (AGGR >= 2) && !((has_car || has_pub) && !has_cal) && !(has_car && has_pub);
	CHECK((res == KSI_OK) == ok, "C10.sig signature accepted iff it has an aggregation chain, no calendar-dependent record without calendar chain, not both auth record and publication");
	if (res != KSI_OK) CHECK(res == KSI_INVALID_FORMAT, "C10.sig structural rejection is reported as KSI_INVALID_FORMAT");
#if AGGR >= 2
	if (res == KSI_OK && has_cal && has_pub) WITNESS_POINT("signature with calendar chain and publication accepted");
	if (res != KSI_OK && has_car && !has_cal) WITNESS_POINT("auth record without calendar chain rejected");
	if (res != KSI_OK && has_car && has_pub && has_cal) WITNESS_POINT("both auth record and publication rejected");
#else
	if (res != KSI_OK) WITNESS_POINT("signature without aggregation chain rejected");
#endif
}
