/* Transport seam for the extender and the publications-file download (DESIGN 3.5), used by the C04 rule harnesses.
 * Replaces base.c:KSI_sendExtenderRequest / KSI_receivePublicationsFile / KSI_verifyPublicationsFile and
 * net.c:KSI_RequestHandle_perform / _getExtendResponse / _free.  HTTP/TCP clients, PDU framing and the HMAC check of
 * the reply (C06) are NOT analysed: the seam hands the rule code a status per step and a typed reply object.
 * As the real transports do (net_http.c:153, net_tcp.c:364) the send step assigns the request id. */
#ifndef VERIF_EXT_SEAM_H_
#define VERIF_EXT_SEAM_H_
#include "internal.h"
struct ext_seam {
	/* ---- behaviour chosen by the harness ---- */
	int send_res, perform_res, get_res;     /* status of each step */
	KSI_uint64_t req_id;                    /* id the transport assigns to the request ... */
	KSI_Integer *req_id_obj;                /* ... as an integer object prepared by the harness (ownership passes to the request) */
	KSI_ExtendResp *resp;                   /* reply handed out by getExtendResponse (ownership passes to the caller), may be NULL */
	int pubfile_res, pubfile_verify_res;    /* KSI_receivePublicationsFile / KSI_verifyPublicationsFile */
	KSI_PublicationsFile *pubfile;          /* file handed out (a new reference per call) */
	/* ---- what the code under test did ---- */
	unsigned sends, performs, gets, handle_frees, pubfile_fetches, pubfile_verifies;
	int req_has_start, req_has_end;
	KSI_uint64_t req_start, req_end;
};
extern struct ext_seam VERIF_ext;
void VERIF_ext_init(void);
#endif
