#!/usr/bin/env python3
"""Regenerates harness/C11/plan.json (python3 harness/C11/gen_plan.py).  The operation sequences of H-2 are
enumerated here; the rest of the plan is written out below."""
import json, os

HERE = os.path.dirname(os.path.abspath(__file__))


# ---------------------------------------------------------------- H-2 operation sequences
def sequences(n):
    """all valid API histories of exactly n operations, first one a create: C = create, F<i> = free one reference of
    handle i, R<i> = take another reference of handle i (at most 2 per handle, at most 3 handles)"""
    res = []

    def rec(seq, refs):
        if len(seq) == n:
            res.append(seq)
            return
        if len(refs) < 3:
            rec(seq + [("C", len(refs))], refs + [1])
        for i, r in enumerate(refs):
            if r > 0:
                rec(seq + [("F", i)], refs[:i] + [r - 1] + refs[i + 1:])
                if r < 2:
                    rec(seq + [("R", i)], refs[:i] + [r + 1] + refs[i + 1:])
    rec([("C", 0)], [1])
    return res


def simulate(seq, cache):
    """only for the witness guards: does the history ever reuse an object / overflow the bin"""
    refs, bin_, recycle, overflow = [], 0, False, False
    for op, a in seq:
        if op == "C":
            if bin_ > 0:
                bin_ -= 1
                recycle = True
            refs.append(1)
        elif op == "R":
            refs[a] += 1
        else:
            refs[a] -= 1
            if refs[a] == 0:
                if bin_ < cache:
                    bin_ += 1
                else:
                    overflow = True
    return recycle, overflow


def h2_instance(seq, cache, idx):
    code = {"C": 0, "F": 1, "R": 2}
    ops, args, ncreate = [], [], 0
    for op, a in seq:
        c = code[op]
        if op == "C":
            ncreate += 1
            if ncreate > 1 and idx % 2 == 1:
                c = 3                       # every other instance builds its later hashes through a hasher
        ops.append(c)
        args.append(a)
    while len(ops) < 5:
        ops.append(0)
        args.append(0)
    rec, ovf = simulate(seq, cache)
    d = ["NOPS=%d" % len(seq), "OPS={%s}" % ",".join(map(str, ops)), "ARGS={%s}" % ",".join(map(str, args)), "CACHE=%d" % cache]
    if rec:
        d.append("EXPECT_RECYCLE=1")
    if ovf:
        d.append("EXPECT_OVERFLOW=1")
    label = "".join(op.lower() + (str(a) if op != "C" else "") for op, a in seq) + "_k%d" % cache
    return {"label": label, "defines": d}


def h2_instances(n, caches):
    out, idx = [], 0
    for seq in sequences(n):
        nfree = sum(1 for op, _ in seq if op == "F")
        for cache in caches:
            if cache == 2 and nfree < 2:
                continue                        # a bin of 2 behaves like a bin of 1 until two objects were released
            out.append(h2_instance(seq, cache, idx))
            idx += 1
    return out


# ---------------------------------------------------------------- plan
def I(label, **d):
    return {"label": label, "defines": ["%s=%s" % (k, v) for k, v in d.items()]}


def main():
    fp = "Rule_verify.function_pointer_call.1/" + ",".join("c05_rule_%d" % i for i in range(40)) + ",h3_fb_rule"
    tlv_uw = ["KSI_TLV_free:4", "KSI_TLVList_free:4", "KSI_List_free:4", "serializeTlv:4", "serializePayload:4", "serializeNested:4",
              "KSI_TLV_writeBytes.0:42"]
    chain_tus = ["hashchain", "hash", "types_base", "tlv_element", "fast_tlv"]
    h3_bb = I("w2d1_bb", C05_W=2, C05_D=1, C05_KIND="{0,0,0,0,0,0}")
    h3_cbbb = I("w2d1_cbbb", C05_W=2, C05_D=1, C05_KIND="{1,0,0,0,0,0}")
    h4 = [I("t2_raw3", NCH=0, TOP_HDR=2, RAWPAY=3),
          I("t2_c2x2", NCH=1, TOP_HDR=2, CH_HDR="{2,2}", CH_LEN="{2,0}", CH_TAG="{0x1f,0}"),
          I("t4_c4x1_c2x0", NCH=2, TOP_HDR=4, CH_HDR="{4,2}", CH_LEN="{1,0}", CH_TAG="{0x20,0x00}"),
          I("t2_c2gc_c4x2", NCH=2, TOP_HDR=2, CH_HDR="{2,4}", CH_LEN="{0,2}", CH_TAG="{0x01,0x1fff}", GC=1, GC_LEN=1, GC_TAG="0x10")]
    h4_t = h4 + [I("t4_raw0", NCH=0, TOP_HDR=4, RAWPAY=0),
                 I("t4_raw9", NCH=0, TOP_HDR=4, RAWPAY=9),
                 I("t2_c4x3_c4x0", NCH=2, TOP_HDR=2, CH_HDR="{4,4}", CH_LEN="{3,0}", CH_TAG="{0x800,0x21}"),
                 I("t4_c2gc3_c2x4", NCH=2, TOP_HDR=4, CH_HDR="{2,2}", CH_LEN="{0,4}", CH_TAG="{0x08,0x1f}", GC=1, GC_LEN=3, GC_TAG="0x1f"),
                 I("t2_c4gc0", NCH=1, TOP_HDR=2, CH_HDR="{4,2}", CH_LEN="{0,0}", CH_TAG="{0x1fff,0}", GC=1, GC_LEN=0, GC_TAG="0x00")]
    q2 = h2_instances(4, [1, 2])
    t2 = q2 + h2_instances(5, [1, 2])
    print("H-2 instances: quick %d, thorough %d" % (len(q2), len(t2)))
    plan = {
        "property": "C11",
        "outside": "full parse / clone / verify / extend histories on real signatures (whole-object byte-level runs through tlv_template / "
                   "signature.c are not analysed here); log-level independence (logging is stubbed, so independence holds by construction of the "
                   "model only); non-canonical TLV encodings; chains with more than one link and caches of other objects (calendar chain root, "
                   "publications file); recycle histories longer than 5 operations; rule functions that are not pure",
        "assumptions": [
            "env/hash_det.c: the digest is a fixed stateless function of (algorithm, message); only determinism and the dependence on the "
            "level byte are relied upon",
            "H-4: KSI_FTLV_memRead replaced by a layout model (concrete lengths, symbolic tag/flags) as in C09 H-4; the byte-level header "
            "decoder is proved in C09 H-1/H-2",
            "H-3: rule functions are stubs with a fixed outcome per rule (pure); the signature object is a zeroed struct with reference count "
            "and baseTlv only; destructors of the temporary objects are counting stand-ins",
        ],
        "manifest": {
            "claimed": True,
            "level_text": "Bounded model checking (CBMC, all values symbolic inside concrete shapes) of the four places where libksi keeps state "
                          "across operations: (H-1) KSI_AggregationHashChain_aggregate as an inductive step from ANY cache state satisfying "
                          "'outputHash is NULL or the fresh result at inputLevel', 2 consecutive calls (thorough 3) with arbitrary int start "
                          "levels on a one-link chain with 64-bit level correction: status, root, end level equal an uncached computation, the "
                          "invariant and the reference accounting of the cached object are re-established after failing calls too (this is the "
                          "check that exposed the dangling cached root, fixed in 4d991fd; a history twin replays the 3-call scenario through "
                          "the public API; H-1c does the same for the unkeyed root cache of KSI_CalendarHashChain_aggregate); (H-2) the data-hash recycler with a real recycle list: every API history of 4 (thorough 5) "
                          "create/ref/free operations on <= 3 handles, bin size 1 and 2: no handed-out object is still referenced, live "
                          "imprints/refcounts never change, bin bounded and disjoint from live objects, no leak/double free; (H-3) "
                          "KSI_SignatureVerifier_verify twice on one used context with pure stub rules (2-rule tree, thorough also with a "
                          "composite, plus fallback policy): both runs give exactly the verdict, invocation order and per-policy results "
                          "computed from the rule outcomes alone, tempData NULL, context and signature (baseTlv) untouched, last-failed "
                          "bookkeeping exact; (H-4) parse -> serialize -> getNestedList -> serialize -> getRawValue -> serialize on canonical "
                          "encodings of <= 2 children + 1 grandchild: all three serialisations equal the input bytes.",
            "level_note": "Component-level, not end-to-end: no real signature is parsed, cloned, verified or extended as a whole; the link "
                          "between these components and 'the signature's serialisation / verdict' is by hand. Hash function, header decoder, "
                          "rule functions and destructors of temporary objects are models (listed under assumptions). H-1 covers one-link "
                          "chains with SHA-1 sized imprints (plus the calendar chain's unkeyed cache on one-link chains, H-1c); H-4 child tags "
                          "are concrete per instance, top tag / flags / payload symbolic, and tlv.c forms a one-before-the-buffer pointer when "
                          "a header ends at buf[0] (tlv.c:754/766, never dereferenced; listed as UB-NOTE by the engine). Logging is "
                          "stubbed: log-level independence is not a finding. CBMC 6.11 C semantics."
        },
        "harnesses": [
            {"name": "h1_cache", "src": "h1_cache.c", "global_defines": ["HD_LOG_MAX=48"],
             "env": ["ctx", "hash_det", "list_wrap", "fmt_stub"], "tus": chain_tus,
             "unwind": 4, "timeout": 300, "mem_gb": 8, "object_bits": 12, "max_replays": 3,
             "functions": ["KSI_AggregationHashChain_aggregate", "KSI_HashChain_aggregate", "aggregateChain", "KSI_DataHash_free", "KSI_DataHash_ref"],
             "bound": "one-link chain (imprint sibling, SHA-1 sized input, chain algorithm SHA2-256), direction / 64-bit level correction / all "
                      "digest bytes symbolic; initial cache state: empty with arbitrary level fields, or the fresh result at a symbolic level "
                      "0..255; then 1 and 2 (thorough 3) calls with arbitrary int start levels",
             "instances": [I("c1", NCALLS=1), I("c2", NCALLS=2)],
             "thorough": {"instances": [I("c1", NCALLS=1), I("c2", NCALLS=2), I("c3", NCALLS=3)], "timeout": 1200}},
            {"name": "h1_f7", "src": "h1_f7.c", "global_defines": ["HD_LOG_MAX=48"],
             "env": ["ctx", "hash_det", "list_wrap", "fmt_stub"], "tus": chain_tus,
             "unwind": 4, "timeout": 300, "mem_gb": 8, "object_bits": 12, "max_replays": 3,
             "functions": ["KSI_AggregationHashChain_aggregate", "KSI_AggregationHashChain_free", "KSI_DataHash_free", "KSI_DataHash_ref"],
             "bound": "the 3-call history OK at level a / failing call at level b / level a again on the same one-link chain, all levels and "
                      "values symbolic, through the public API only; CBMC deallocated-object checks, ASan in the replay"},
            {"name": "h1c_calcache", "src": "h1c_calcache.c", "global_defines": ["HD_LOG_MAX=48"],
             "env": ["ctx", "hash_det", "list_wrap", "fmt_stub"], "tus": chain_tus,
             "unwind": 4, "timeout": 300, "mem_gb": 8, "object_bits": 12, "leak_check": True,
             "functions": ["KSI_CalendarHashChain_aggregate", "KSI_HashChain_aggregateCalendar", "KSI_CalendarHashChain_free"],
             "bound": "one-link calendar chain (direction per instance, SHA-1 sized imprints, all bytes symbolic); cache empty, empty with an un-aggregatable "
                      "chain (no link list), or holding the fresh root; 2 calls",
             "instances": [I("left_cold", LEFT=1, WARM=0), I("right_warm", LEFT=0, WARM=1), I("left_broken", LEFT=1, WARM=0, BROKEN=1)],
             "thorough": {"instances": [I("left_cold", LEFT=1, WARM=0), I("right_warm", LEFT=0, WARM=1), I("left_broken", LEFT=1, WARM=0, BROKEN=1),
                                        I("right_cold", LEFT=0, WARM=0), I("left_warm", LEFT=1, WARM=1)]}},
            {"name": "h2_recycle", "src": "h2_recycle.c", "global_defines": ["HD_LOG_MAX=8"],
             "env": ["ctx", "hash_det", "list_wrap", "fmt_stub"], "tus": ["hash"],
             "unwind": 6, "timeout": 300, "mem_gb": 8, "object_bits": 12, "leak_check": True,
             "functions": ["alloc_dataHash", "KSI_DataHash_free", "KSI_DataHash_ref", "KSI_DataHash_fromDigest", "KSI_DataHash_create",
                           "KSI_DataHasher_close"],
             "bound": "every valid history of exactly 4 (thorough: also 5) operations create / ref / free on <= 3 handles with <= 2 references "
                      "each, recycle bin size 1, and size 2 for histories with >= 2 frees; creation through KSI_DataHash_fromDigest, in every "
                      "other instance later creations through KSI_DataHash_create (hasher); digest / message bytes symbolic; real recycle list",
             "instances": q2, "thorough": {"instances": t2}},
            {"name": "h3_verifier", "src": "h3_verifier.c", "env": ["ctx", "list_wrap", "fmt_stub"], "tus": ["signature"],
             "unwind": 8, "unwindset": ["Rule_verify.0:4", "Rule_verify:4"], "timeout": 600, "mem_gb": 8, "object_bits": 12, "restrict_fp": [fp],
             "functions": ["KSI_SignatureVerifier_verify", "Policy_verifySignature", "Rule_verify", "VerificationTempData_clear",
                           "KSI_Signature_free", "KSI_Signature_ref", "KSI_PolicyVerificationResult_free"],
             "bound": "two runs on one context; policy = rule tree of width 2 (quick: two basic rules; thorough also: OR/AND composite of two "
                      "basic rules followed by a basic rule) with a one-rule fallback policy; all rule outcomes (any status, OK/NA/FAIL, any "
                      "error code), labels, list lengths, which rules leave temporary data, docAggrLevel, previous error count symbolic"
                      "",
             "instances": [h3_bb], "thorough": {"instances": [h3_bb, h3_cbbb], "timeout": 1800}},
            {"name": "h4_lazy", "src": "h4_lazy.c", "env": ["ctx", "list_wrap", "fmt_stub"], "tus": ["tlv"],
             "unwind": 6, "unwindset": tlv_uw, "timeout": 300, "mem_gb": 8, "object_bits": 12,
             "functions": ["KSI_TLV_parseBlob2", "readFirstTlv", "KSI_TLV_getNestedList", "encodeAsNestedTlvs", "KSI_TLV_getRawValue", "encodeAsRaw",
                           "KSI_TLV_serialize_ex", "KSI_TLV_writeBytes", "serializeTlv", "serializePayload", "serializeNested", "serializeRaw",
                           "KSI_TLV_serializePayload"],
             "bound": "canonical encodings of a top element (2- or 4-byte header) with raw payload of 0..9 bytes, or 1..2 children (2-/4-byte "
                      "headers, payload 0..4 bytes) optionally with one grandchild in child 0; layout and child tags concrete per instance "
                      "(4 quick, 9 thorough), top tag, all flags and payload bytes symbolic",
             "instances": h4, "thorough": {"instances": h4_t}},
        ]}
    json.dump(plan, open(os.path.join(HERE, "plan.json"), "w"), indent=1)


if __name__ == "__main__":
    main()
