/* C08 H-3: wiring (gate order) of the blocking extend functions in signature.c (real):
 *   ENTRY 0: KSI_Signature_extendToWithPolicy(sig, ctx, to, policy, context, &ext)
 *   ENTRY 1: KSI_Signature_extendWithPolicy(sig, ctx, pubRec, policy, context, &ext)      (publication record given)
 *   ENTRY 2: KSI_Signature_extendWithPolicy(sig, ctx, NULL, ...)                             (extend to the calendar head)
 *   -> KSI_signature_extendToWithoutVerification, KSI_createExtendRequest, KSI_Signature_getSigningTime,
 *      KSI_Signature_replacePublicationRecord are real; every callee outside signature.c is a stub with a symbolic status
 *      (c07_gates.h); list.c and the hashchain.c getters are real; the TLV objects are models (tlv.c is not linked).
 * For ALL combinations of callee outcomes and all 64-bit times:
 *   success => [clone of the publication record] , send, perform, getExtendResponse (MAC gate, C06 H-5),
 *     KSI_ExtendResp_verifyWithRequest(resp, the request that was sent), getCalendarHashChain, builder opened from the SOURCE
 *     signature (a clone), KSI_CalendarHashChain_verifyCompatibilityTo(source's old chain, new chain) when the source has a
 *     calendar chain, applyCalendarHashChain(new chain), close(noVerify), [removal of old publication/auth record + attach of
 *     the cloned publication record], KSI_Signature_verifyWithPolicy(result, caller's policy/context) - each exactly once, in
 *     this order, all KSI_OK, on the same objects; the request asks for [signing time of the source, target time];
 *   any gate fails => that status is returned ("res != KSI_OK && res" at signature.c:883 included), no later gate is reached,
 *     *extended is untouched, request / handle / response / builder / half-built signature / publication clone are released;
 *   a target time before the signing time is refused before anything is sent;
 *   the SOURCE signature object is bit-for-bit unchanged in every case. */
#include "verif.h"
#include "internal.h"
#include "tlv.h"
#include "tlv_template.h"
#include "hashchain.h"
#include "net.h"
#include "pkitruststore.h"
#include "policy.h"
#include "signature_builder.h"
#include "impl/ctx_impl.h"
#include "impl/hash_impl.h"
#include "impl/hashchain_impl.h"
#include "impl/publicationsfile_impl.h"
#include "impl/verification_impl.h"
#include "ctx.h"
#include "verif_post.h"
#include "types_base.c"
#define C07_HAVE_PUBREC_FREE 1
#define C07_HAVE_CALCHAIN_FREE 1
#define C07_HAVE_TLV_FREE 1
#include "c07_gates.h"

/* TLV model (tlv.c not linked): tag + typed child list; enough for KSI_Signature_replacePublicationRecord */
struct KSI_TLV_st { KSI_CTX *ctx; unsigned tag; KSI_LIST(KSI_TLV) *nested; unsigned freed; };
static KSI_TLV m_base_tlv, m_pub_tlv; static unsigned m_tlv_new_calls, n_getnested; static int st_tlvnew, st_getnested;
void KSI_TLV_free(KSI_TLV *t) { if (t != NULL) t->freed++; }
KSI_IMPLEMENT_LIST(KSI_TLV, KSI_TLV_free);
int KSI_TLV_new(KSI_CTX *ctx, unsigned tag, int isLenient, int isForward, KSI_TLV **tlv) {
	(void)isLenient; (void)isForward; m_tlv_new_calls++;
	st_tlvnew = ND(int, tlvnew_status); if (st_tlvnew != KSI_OK) return st_tlvnew;
	m_pub_tlv.ctx = ctx; m_pub_tlv.tag = tag; m_pub_tlv.nested = NULL; *tlv = &m_pub_tlv; return KSI_OK;
}
int KSI_TLV_getNestedList(KSI_TLV *tlv, KSI_LIST(KSI_TLV) **list) {
	n_getnested++; st_getnested = ND(int, getnested_status); if (st_getnested != KSI_OK) return st_getnested;
	*list = tlv->nested; return KSI_OK;
}

#ifndef ENTRY
#define ENTRY 0
#endif
#ifndef HAS_CAL
#define HAS_CAL 1
#endif
#ifndef HAS_TO
#define HAS_TO 1
#endif

static KSI_Integer *mk_int(u64 v) { KSI_Integer *i = malloc(sizeof(*i)); ASSUME(i != NULL); i->ref = 1; i->value = v; return i; }

struct KSI_ExtendReq_st { KSI_Integer *aggrTime, *pubTime; unsigned freed; };
struct KSI_ExtendResp_st { unsigned freed; };
static KSI_ExtendReq m_req; static unsigned m_req_made;
static KSI_ExtendResp m_resp;
static KSI_CalendarHashChain m_newcal;            /* the chain in the reply */
static KSI_Signature src; static KSI_CalendarHashChain src_cal;
static KSI_Integer *sent_at, *sent_pt;
static KSI_PublicationRecord pub_orig, pub_clone; static KSI_PublicationData pub_data; static unsigned pub_clone_freed;

int KSI_ExtendReq_new(KSI_CTX *ctx, KSI_ExtendReq **t) { (void)ctx; m_req_made++; m_req.aggrTime = NULL; m_req.pubTime = NULL; *t = &m_req; return KSI_OK; }
int KSI_ExtendReq_setAggregationTime(KSI_ExtendReq *t, KSI_Integer *v) { t->aggrTime = v; return KSI_OK; }
int KSI_ExtendReq_setPublicationTime(KSI_ExtendReq *t, KSI_Integer *v) { t->pubTime = v; return KSI_OK; }
void KSI_ExtendReq_free(KSI_ExtendReq *t) { if (t != NULL) { t->freed++; KSI_Integer_free(t->aggrTime); KSI_Integer_free(t->pubTime); } }
void KSI_ExtendResp_free(KSI_ExtendResp *t) { if (t != NULL) t->freed++; }

int KSI_sendExtenderRequest(KSI_CTX *ctx, KSI_ExtendReq *request, KSI_RequestHandle **handle) {
	(void)ctx;
	if (request != NULL) { sent_at = request->aggrTime; sent_pt = request->pubTime; }
	int s = gate(G_SEND, request == &m_req);
	if (s != KSI_OK) return s;
	*handle = &m_handle; return KSI_OK;
}
int KSI_RequestHandle_getExtendResponse(const KSI_RequestHandle *handle, KSI_ExtendResp **resp) {
	int s = gate(G_GETRESP, handle == &m_handle);
	if (s != KSI_OK) return s;
	*resp = &m_resp; return KSI_OK;
}
int KSI_ExtendResp_verifyWithRequest(const KSI_ExtendResp *resp, const KSI_ExtendReq *req) { return gate(G_VWR, resp == &m_resp && req == &m_req); }
int KSI_ExtendResp_getCalendarHashChain(const KSI_ExtendResp *resp, KSI_CalendarHashChain **c) {
	int s = gate(G_GETCHAIN, resp == &m_resp);
	if (s != KSI_OK) return s;
	*c = &m_newcal; return KSI_OK;
}
int KSI_SignatureBuilder_openFromSignature(const KSI_Signature *sig, KSI_SignatureBuilder **builder) {
	int s = gate(G_OPEN, sig == &src);
	if (s != KSI_OK) return s;
	*builder = c07_open_builder(VERIF_ctx);
	/* the clone under construction has a (real, empty) 0x800 element and the method table of a real signature */
	m_base_tlv.ctx = VERIF_ctx; m_base_tlv.tag = 0x800;
	int r = KSI_TLVList_new(&m_base_tlv.nested); ASSUME(r == KSI_OK);
	m_sig_obj.baseTlv = &m_base_tlv;
	extern int c08_removeCalAuthAndPublication(KSI_Signature *sig);
	m_sig_obj.removeCalAuthAndPublication = c08_removeCalAuthAndPublication;
	return KSI_OK;
}
static int c08_compat(const KSI_CalendarHashChain *a, const KSI_CalendarHashChain *b) { return gate(G_COMPAT, a == &src_cal && b == &m_newcal); }
int KSI_SignatureBuilder_applyCalendarHashChain(KSI_SignatureBuilder *builder, KSI_CalendarHashChain *cal) { return gate(G_APPLY, builder == m_builder && builder != NULL && cal == &m_newcal); }
int c08_removeCalAuthAndPublication(KSI_Signature *sig) { return gate(G_REPLPUB, sig == &m_sig_obj && m_sign == &m_sig_obj); }
int KSI_PublicationRecord_clone(const KSI_PublicationRecord *rec, KSI_PublicationRecord **clone) {
	int s = gate(G_CLONEPUB, rec == &pub_orig);
	if (s != KSI_OK) return s;
	*clone = &pub_clone; return KSI_OK;
}
int KSI_PublicationRecord_getPublishedData(const KSI_PublicationRecord *t, KSI_PublicationData **d) { *d = t->publishedData; return KSI_OK; }
int KSI_PublicationData_getTime(const KSI_PublicationData *t, KSI_Integer **tm) { *tm = t->time; return KSI_OK; }
void KSI_PublicationRecord_free(KSI_PublicationRecord *t) { if (t == &pub_clone) pub_clone_freed++; else __CPROVER_assert(t == NULL, "CHECK C08.H3 only the cloned publication record is ever released"); }
static int st_construct; static unsigned n_construct;
int KSI_TlvTemplate_construct(KSI_CTX *ctx, KSI_TLV *tlv, const void *payload, const KSI_TlvTemplate *tmpl) { (void)ctx; (void)tlv; (void)tmpl; __CPROVER_assert(payload == &pub_clone, "CHECK C08.H3 the publication element is built from the cloned record"); n_construct++; st_construct = ND(int, construct_status); return st_construct; }

#define KSI_CalendarHashChain_verifyCompatibilityTo c08_compat
#include "signature.c"
#undef KSI_CalendarHashChain_verifyCompatibilityTo

void harness(void) {
	VERIF_ctx_init();
	KSI_CTX *ctx = VERIF_ctx;
	int res;
	u64 t_sign = ND(u64, signing_time), t_to = ND(u64, target_time), t_oldpub = ND(u64, old_pub_time);
	memset(&src, 0, sizeof(src)); src.ctx = ctx; src.ref = 1;
	KSI_Integer *sign_int = mk_int(t_sign);
#if HAS_CAL
	memset(&src_cal, 0, sizeof(src_cal)); src_cal.ctx = ctx; src_cal.ref = 1;
	src_cal.aggregationTime = sign_int; src_cal.publicationTime = mk_int(t_oldpub);
	src.calendarChain = &src_cal;
#else
	{
		static KSI_AggregationHashChain ac;
		memset(&ac, 0, sizeof(ac)); ac.ctx = ctx; ac.ref = 1; ac.aggregationTime = sign_int;
		res = KSI_AggregationHashChainList_new(&src.aggregationChainList); ASSUME(res == KSI_OK);
		res = KSI_AggregationHashChainList_append(src.aggregationChainList, &ac); ASSUME(res == KSI_OK);
	}
#endif
	memset(&m_newcal, 0, sizeof(m_newcal)); m_newcal.ctx = ctx; m_newcal.ref = 1;
	KSI_Integer *to_int = mk_int(t_to);
	pub_data.ctx = ctx; pub_data.ref = 1; pub_data.time = to_int;
	pub_orig.ctx = ctx; pub_orig.ref = 1; pub_orig.publishedData = &pub_data;
	pub_clone = pub_orig;
	static KSI_Policy pol; static KSI_VerificationContext vctx;
	KSI_VerificationContext *vc = ND_BOOL(has_vctx) ? &vctx : NULL;
	KSI_Signature src_before = src;
	KSI_Signature *marker = (KSI_Signature *)&pol, *out = marker;

#if ENTRY == 0
	KSI_Integer *to = HAS_TO ? to_int : NULL;
	res = KSI_Signature_extendToWithPolicy(&src, ctx, to, &pol, vc, &out);
#elif ENTRY == 1
	KSI_Integer *to = to_int;
	res = KSI_Signature_extendWithPolicy(&src, ctx, &pub_orig, &pol, vc, &out);
#else
	KSI_Integer *to = NULL;
	res = KSI_Signature_extendWithPolicy(&src, ctx, NULL, &pol, vc, &out);
#endif

	int same = src.ctx == src_before.ctx && src.ref == src_before.ref && src.baseTlv == src_before.baseTlv && src.calendarChain == src_before.calendarChain
		&& src.aggregationChainList == src_before.aggregationChainList && src.rfc3161 == src_before.rfc3161 && src.calendarAuthRec == src_before.calendarAuthRec
		&& src.aggregationAuthRec == src_before.aggregationAuthRec && src.publication == src_before.publication
		&& src.policyVerificationResult == src_before.policyVerificationResult && src.replaceCalendarChain == src_before.replaceCalendarChain
		&& src.appendAggregationChain == src_before.appendAggregationChain && src.removeCalAuthAndPublication == src_before.removeCalAuthAndPublication;
	CHECK(same, "C08.H3 the source signature object is unchanged (every member)");
#if HAS_CAL
	CHECK(src_cal.ref == 1 && src_cal.aggregationTime == sign_int, "C08.H3 the source signature's calendar chain is unchanged");
#endif

	/* the gate sequence of this entry point and shape */
	int G[16]; unsigned n = 0;
#if ENTRY == 1
	G[n++] = G_CLONEPUB;
#endif
	G[n++] = G_SEND; G[n++] = G_PERFORM; G[n++] = G_GETRESP; G[n++] = G_VWR; G[n++] = G_GETCHAIN; G[n++] = G_OPEN;
#if HAS_CAL
	G[n++] = G_COMPAT;
#endif
	G[n++] = G_APPLY; G[n++] = G_CLOSE;
#if ENTRY == 1
	G[n++] = G_REPLPUB;
#endif
	G[n++] = G_VERIFY;

	int time_order_ok = (to == NULL) || t_sign <= t_to;
	int clone_failed = (ENTRY == 1) && g_calls[G_CLONEPUB] == 1 && g_status[G_CLONEPUB] != KSI_OK;
	if (!time_order_ok && !clone_failed) {
		CHECK(res == KSI_INVALID_ARGUMENT && out == marker && g_calls[G_SEND] == 0 && m_req_made == 0, "C08.H3 a target time before the signing time is refused before anything is sent");
#if (ENTRY == 0 && HAS_TO) || ENTRY == 1
		if (t_to + 1 == t_sign) WITNESS_POINT("target one second before the signing time refused");
#endif
	} else {
		CHECK(nothing_after_failure(G, n), "C08.H3 no gate is reached after an earlier gate failed or was skipped");
		if (g_calls[G_SEND] == 1) {
			CHECK(sent_at == sign_int && sent_pt == to, "C08.H3 the request asks for the source's signing time and the caller's target time (none = calendar head)");
		}
#if !HAS_CAL
		CHECK(g_calls[G_COMPAT] == 0, "C08.H3 no compatibility check without an old calendar chain");
#endif
#if ENTRY != 1
		CHECK(g_calls[G_CLONEPUB] == 0 && g_calls[G_REPLPUB] == 0, "C08.H3 no publication record handling without a publication record");
#endif
		if (res == KSI_OK) {
			CHECK(gates_ok_in_order(G, n), "C08.H3 success only after every gate returned OK once, in order, on the same objects");
			CHECK(m_close_noverify == 1 && m_close_level == 0, "C08.H3 the builder is closed unverified with level 0, verification follows separately");
			CHECK(m_verify_doc == NULL && m_verify_level == 0 && m_verify_policy == &pol && m_verify_ctx == vc, "C08.H3 the result is verified with the caller's policy and context");
			CHECK(out == &m_sig_obj && SIG_ALIVE_AND_OWNED(), "C08.H3 the returned signature is the verified object and is alive");
#if ENTRY == 1
			CHECK(n_construct == 1 && st_construct == KSI_OK && m_sig_obj.publication == &pub_clone && pub_clone_freed == 0, "C08.H3 the result carries the cloned publication record, the caller keeps the original");
			{
				KSI_TLV *last = NULL;
				CHECK(m_pub_tlv.tag == 0x803 && KSI_TLVList_length(m_base_tlv.nested) == 1 && KSI_TLVList_elementAt(m_base_tlv.nested, 0, &last) == KSI_OK && last == &m_pub_tlv,
					"C08.H3 a 0x803 element built from the clone is appended to the result's signature element");
			}
			if (t_to > t_sign) WITNESS_POINT("extended to a publication record");
#elif ENTRY == 0
#if HAS_TO
			if (t_to == t_sign) WITNESS_POINT("extended to the signing time itself");
#else
			WITNESS_POINT("extended to the calendar head");
#endif
#else
			WITNESS_POINT("extended to the calendar head without publication record");
#endif
		} else {
			CHECK(out == marker, "C08.H3 no signature is returned together with an error");
			int failing = 0, match = 0;
			for (unsigned i = 0; i < 16; i++) if (i < n && g_calls[G[i]] == 1 && g_status[G[i]] != KSI_OK) { failing++; if (g_status[G[i]] == res) match = 1; }
#if ENTRY == 1
			if (n_construct == 1 && st_construct != KSI_OK) { failing++; if (st_construct == res) match = 1; }
			if (m_tlv_new_calls == 1 && st_tlvnew != KSI_OK) { failing++; if (st_tlvnew == res) match = 1; }
			if (n_getnested == 1 && st_getnested != KSI_OK) { failing++; if (st_getnested == res) match = 1; }
#endif
			CHECK(failing == 1 && match, "C08.H3 the error returned is the status of the one step that failed");
			CHECK(m_builder == NULL || SIG_RELEASED(), "C08.H3 a signature under construction is released on failure");
#if ENTRY == 1
			CHECK(g_calls[G_CLONEPUB] == 0 || g_status[G_CLONEPUB] != KSI_OK || pub_clone_freed == 1 || m_sig_obj.publication == &pub_clone, "C08.H3 the cloned publication record is released or owned by the (released) signature");
#endif
			if (g_calls[G_VERIFY] == 1 && g_status[G_VERIFY] != KSI_OK) WITNESS_POINT("final verification failed: nothing returned");
#if HAS_CAL
			if (g_calls[G_COMPAT] == 1 && g_status[G_COMPAT] == KSI_INCOMPATIBLE_HASH_CHAIN) WITNESS_POINT("incompatible calendar chain stops before the chain is applied");
#endif
		}
		if (g_calls[G_SEND] == 1) {
			CHECK(m_req.freed == 1 && m_handle_freed == g_calls[G_PERFORM] && m_resp.freed == (g_calls[G_GETRESP] == 1 && g_status[G_GETRESP] == KSI_OK ? 1 : 0)
				&& m_builder_freed == (m_builder != NULL ? 1 : 0), "C08.H3 request, handle, response and builder are released exactly once");
		}
	}
}
