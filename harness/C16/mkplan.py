#!/usr/bin/env python3
"""Generates harness/C16/plan.json (instances are enumerated shapes).  Run after editing."""
import json, os
HERE = os.path.dirname(os.path.abspath(__file__))

ENV = ["ctx_expect", "hash_model_memo", "list_wrap", "fmt_stub", "metadata_obj"]
TUS = ["hashchain", "hash", "types_base", "tlv_element", "fast_tlv"]
FS = ["--max-field-sensitivity-array-size", "256"]
RESTRICT = ["KSI_List_free.function_pointer_call.1/KSI_HashChainLink_free,KSI_TlvElement_free"]

def kinds(s):
    k = [1 if c == 'm' else 0 for c in s] + [0] * (10 - len(s))
    return "KINDS={%s}" % ",".join(map(str, k))

def tree_inst(shape, alg="KSI_HASHALG_SHA1", refuse=-1, maxmode=0, label=None, stop=False, levels=None, maxval=None, close_overflow=None, wit=None):
    """shape: string over h/m, one char per ADD (including the refused one)"""
    n = len(shape) - (1 if refuse >= 0 else 0)
    if maxval is not None:
        maxmode = 3
    d = ["NLEAVES=%d" % n, kinds(shape), "ALG=%s" % alg, "REFUSE=(%d)" % refuse, "MAXMODE=%d" % maxmode]
    if maxval is not None:
        d.append("MAXVAL=%d" % maxval)
    if stop:
        d.append("STOP_AFTER_REFUSAL=1")
    if levels is not None:
        d.append("LEVELS={%s}" % ",".join(map(str, list(levels) + [0] * (10 - len(levels)))))
    if close_overflow is None:
        close_overflow = (levels is None and not stop and maxmode not in (2, 3) and bin(n).count("1") >= 2)
    if close_overflow:
        d.append("WIT_CLOSE_OVERFLOW=1")
    if refuse >= 0:
        if wit is None:   # symbolic levels: a limit refusal needs a limit, a carry refusal an occupied slot 0 and no limit <= 255
            wit = (["LIMIT"] if maxmode in (0, 2) else []) + (["CARRY"] if maxmode in (0, 1) and refuse % 2 == 1 else [])
        for w in wit:
            d.append("WIT_REFUSE_%s=1" % w)
        if not stop and not close_overflow:
            d.append("WIT_CLOSE_OK=1")
    lab = label or ("n%d_%s%s%s%s" % (n, shape, "_s256" if "256" in alg else "", "_r%d" % refuse if refuse >= 0 else "", "_m%d" % maxmode if maxmode else ""))
    return {"label": lab, "defines": d}

h1_quick = [tree_inst("h"), tree_inst("hh"), tree_inst("mh"), tree_inst("hmh"), tree_inst("hhmh", alg="KSI_HASHALG_SHA2_256")]
h1_thorough = h1_quick + [tree_inst("hhh"), tree_inst("hhhh"), tree_inst("hhhhh"), tree_inst("hmhhm"), tree_inst("hhhhhh"), tree_inst("hhhhhhh"), tree_inst("hhhhhhhh"),
                          tree_inst("hhhhhh", alg="KSI_HASHALG_SHA2_256"), tree_inst("mhmhmhmh")]
# H-2a: symbolic levels, stop after the refused add.  Odd position + no limit = carry overflow (position 3: carry depth 0 or 1)
h2a_quick = [tree_inst("hh", refuse=1, maxmode=1, stop=True), tree_inst("mh", refuse=1, maxmode=0, stop=True), tree_inst("hhh", refuse=2, maxmode=2, stop=True),
             tree_inst("hhhh", refuse=3, maxmode=1, stop=True)]
h2a_thorough = h2a_quick + [tree_inst("hhmh", refuse=3, maxmode=0, stop=True), tree_inst("hhhhh", refuse=4, maxmode=2, stop=True), tree_inst("hhhhhh", refuse=5, maxmode=1, stop=True),
                            tree_inst("hhhhhhhh", refuse=7, maxmode=1, stop=True)]
# H-2b: concrete levels; what happens after the refusal
h2b_quick = [tree_inst("hhh", refuse=1, maxmode=1, levels=[0, 255, 0], wit=["CARRY"], label="l_0_255r_0"),
             tree_inst("hhhh", refuse=3, maxmode=1, levels=[254, 0, 0, 0], close_overflow=True, wit=["CARRY"], label="l_254_0_0_0r_carry1"),
             tree_inst("hhhhh", refuse=4, maxval=2, levels=[0, 0, 0, 0, 0], wit=["LIMIT"], label="l_00000r_max2"),
             tree_inst("hmhh", refuse=2, maxval=3, levels=[0, 0, 7, 0], wit=["LIMIT"], label="l_hm_7r_h_max3")]
h2b_thorough = h2b_quick + [tree_inst("hhhhhhhh", refuse=7, maxmode=1, levels=[253, 0, 0, 0, 0, 0, 0, 0], close_overflow=True, wit=["CARRY"], label="l_253_0x6_0r_carry2"),
                            tree_inst("hhhh", refuse=3, maxmode=1, levels=[3, 2, 254, 255], close_overflow=False, wit=["CARRY"], label="l_3_2_254_255r_root255")]
common = {"src": "h1_tree.c", "env": ENV, "tus": TUS, "unwind": 6,
          "unwindset": ["KSI_TreeBuilder_close.0:257", "calculateHighestLevel.0:257", "insertNode:6", "getHashChainLinks:6", "KSI_TreeNode_free:6"],
          "cbmc_flags": FS, "restrict_fp": RESTRICT, "max_replays": 2, "object_bits": 12, "mem_gb": 8, "timeout": 600, "solver": "kissat",
          "functions": ["KSI_TreeBuilder_new", "KSI_TreeBuilder_addDataHash", "KSI_TreeBuilder_addMetaData", "addLeaf", "processAndInsertNode",
                        "insertNode", "KSI_TreeNode_join", "joinHashes", "KSI_DataHasher_addTreeNode", "KSI_TreeNode_new", "calculateHighestLevel",
                        "levelWithOverhead", "KSI_TreeBuilder_close", "KSI_TreeLeafHandle_getAggregationChain", "getHashChainLinks", "KSI_TreeNode_free"]}

B_H1 = ("trees of 1..4 leaves (thorough 1..8), each leaf a SHA-1 imprint or a 4-byte metadata value as enumerated per instance, inner nodes SHA-1 or SHA2-256; "
        "symbolic: every leaf level 0..255, maxTreeLevel (any short), all digest / payload bytes, all digests returned by the hash model")
B_H2A = ("1..3 accepted leaves (thorough up to 7) followed by one leaf the reference refuses; all levels symbolic, maxTreeLevel symbolic / none / 1..255 per instance; "
         "the run ends after the refused add")
B_H2B = ("concrete level vectors per instance (refusal at carry depth 0, 1 (thorough 2), by a concrete maxTreeLevel, with metadata), digests symbolic; "
         "the run continues after the refusal: more leaves, close, chains of all accepted leaves")
def bs_inst(label, **d):
    return {"label": label, "defines": ["%s=%s" % (k, v) for k, v in d.items()]}
h3_quick = [bs_inst("leaves_n1_M_mask", MODE=1, NLEAVES=1, MDS="{1,0,0,0,0,0,0,0}", MASK=1),
            bs_inst("leaves_n2_hM_nomask", MODE=1, NLEAVES=2, MDS="{0,1,0,0,0,0,0,0}", MASK=0),
            bs_inst("reset_n1_state", MODE=2, NLEAVES=1, MASK=1, STATE_ONLY=1),
            # reset at other points: an EVEN number of pending leaves (they are joined into a higher slot, slot 0 is empty) and a signer that is still unused
            bs_inst("reset_n2_state", MODE=2, NLEAVES=2, MASK=1, STATE_ONLY=1),
            bs_inst("reset_n0_state", MODE=2, NLEAVES=0, MASK=1, STATE_ONLY=1)]
h3_thorough = h3_quick + [bs_inst("leaves_n2_MM_mask", MODE=1, NLEAVES=2, MDS="{1,1,0,0,0,0,0,0}", MASK=1), bs_inst("reset_n1", MODE=2, NLEAVES=1, MASK=1),
                          bs_inst("leaves_n3_MhM_mask", MODE=1, NLEAVES=3, MDS="{1,0,1,0,0,0,0,0}", MASK=1),
                          bs_inst("leaves_n1_h_mask", MODE=1, NLEAVES=1, MDS="{0,0,0,0,0,0,0,0}", MASK=1),
                          bs_inst("reset_n2_closed", MODE=2, NLEAVES=2, MASK=1, CLOSE_BEFORE_RESET=1),
                          bs_inst("reset_n1_nomask", MODE=2, NLEAVES=1, MASK=0)]
B_H3 = ("block signer with SHA2-256: 1-2 leaves (thorough up to 3) with / without per-leaf metadata (4-byte payload) and with / without blinding masks (8-byte initial value); all digests, payloads, "
        "iv bytes symbolic, leaf levels symbolic 0..249; reset after 0, 1 and 2 pending leaves (thorough: also after 2 leaves and closeAndSign) compared field by field and by behaviour with a new signer; "
        "KSI_Signature_signAggregated / KSI_Signature_free are recording stubs")
plan = {
 "property": "C16",
 "outside": ("KSI_BlockSignerHandle_getSignature beyond the level / identity arithmetic of h5_blocksig_levels (concrete leaf levels and base corrections per instance, 1-3 leaves, signing stubbed, TLV template and verification modelled); the block signer's leaf processors "
             "(blocksigner.c) beyond the h3_blocksigner bound (<= 3 leaves; 4 leaves with masks and metadata did not finish in 30 min); types.c's own KSI_MetaData serializer (metadata leaves are harness objects implementing the same two callbacks); "
             "trees of more than 8 leaves; KSI_TreeBuilder_free; allocation failure (C19)"),
 "assumptions": ["hash function = memoising model: equal (algorithm, message) -> equal digest, different message -> different digest by ASSUME (collision-freeness is an explicit assumption)",
                 "while the reference model says an operation must succeed, every error exit of tree_builder.c is reported as a failed check and the path is cut there "
                 "(env/ctx_expect.c for KSI_pushError exits, common/c16_instr.h for `res = KSI_INVALID_STATE / KSI_INVALID_ARGUMENT` exits); no condition or value of the analysed text changes",
                 "KSI_MetaData_ref/free and KSI_MetaDataElement_ref/free re-stated from types.c (env/metadata_obj.c)",
                 "indirect call in KSI_List_free restricted to {KSI_HashChainLink_free, KSI_TlvElement_free} with the proof obligation inserted by goto-instrument"],
 "manifest": {"claimed": True,
  "level_text": ("For every tree shape in the bound and ALL leaf levels 0..255, maxTreeLevel values and digest bytes, the SAT solver shows on the real tree_builder.c: a leaf the reference "
                 "(binary-counter forest, level = max+1) accepts is accepted; after KSI_TreeBuilder_close root hash and level equal the reference left-to-right merge, and for every leaf the chain from "
                 "KSI_TreeLeafHandle_getAggregationChain, folded by the harness' own chain formula (H(left||right||level), level += correction+1) from the leaf's value and level, ends at exactly the root; "
                 "close fails iff the root level would leave 0..255; a leaf beyond maxTreeLevel or whose carry joins exceed 255 is refused with CBMC's pointer / double-free checks on, and (concrete level "
                 "scenarios) the accepted leaves keep valid chains afterwards."),
  "level_note": ("Bounded: <= 4 leaves quick, <= 8 thorough.  Hash model with assumed collision-freeness; the 'every message of the reference was hashed by the builder' check is syntactic on the model's record table.  "
                 "Error exits are observed-and-cut while success is expected (see assumptions).  What happens after a refusal is checked for concrete level vectors only (a symbolic refusal leaves a merged state CBMC "
                 "cannot carry on with).  Block signer: only what h3_* harnesses state; getSignature is outside.  Until F12 is fixed in /repo the check reports it (FINDINGS.md).")},
 "harnesses": [
  dict(common, name="h1_tree", global_defines=["HM_LOG_MAX=72", "HM_REC_MAX=8"],
       bound=B_H1, instances=h1_quick, thorough={"instances": h1_thorough, "timeout": 1800}),
  dict(common, name="h2a_refuse", global_defines=["HM_LOG_MAX=72", "HM_REC_MAX=8"],
       bound=B_H2A, instances=h2a_quick, thorough={"instances": h2a_thorough, "timeout": 1800}),
  dict(common, name="h2b_after", global_defines=["HM_LOG_MAX=72", "HM_REC_MAX=8"],
       bound=B_H2B, instances=h2b_quick, thorough={"instances": h2b_thorough, "timeout": 1800}),
  dict(common, name="h3_blocksigner", src="h3_blocksigner.c", global_defines=["HM_LOG_MAX=72", "HM_REC_MAX=20"], harness_unwind=260,
       unwindset=common["unwindset"] + ["KSI_TreeBuilder_free.0:257"],
       functions=["KSI_BlockSigner_new", "KSI_BlockSigner_addLeaf", "KSI_BlockSigner_closeAndSign", "KSI_BlockSigner_reset", "KSI_BlockSigner_getPrevLeaf", "metaDataProcessor", "maskingProcessor",
                  "processAndInsertNode", "levelWithOverhead", "KSI_TreeBuilder_free"] + common["functions"],
       bound=B_H3, instances=h3_quick, thorough={"instances": h3_thorough, "timeout": 1800}),
 ]}
# harnesses delivered as single plan entries (kept next to this file): h5_blocksig_levels
import glob
for f in sorted(glob.glob(os.path.join(HERE, "*_plan_entry.json"))):
    plan["harnesses"].append(json.load(open(f)))
json.dump(plan, open(os.path.join(HERE, "plan.json"), "w"), indent=1)
print("wrote plan.json:", sum(len(h.get("instances", [1])) for h in plan["harnesses"]), "quick instances")
