#!/usr/bin/env python3
"""Generates harness/C07/plan.json."""
import json, os, sys, importlib.util


def h2_gate():
    return {
        "name": "h2_gate", "src": "h2_gate.c",
        "env": ["ctx", "hash_model", "list_wrap", "fmt_stub"],
        "tus": ["types_base", "hash"],
        "unwind": 4, "object_bits": 10, "timeout": 120, "mem_gb": 8,
        "functions": ["KSI_Signature_signAggregatedWithPolicy", "KSI_createSignRequest", "KSI_Signature_free"],
        "bound": "one signing call; all callees outside signature.c are stubs with symbolic status (send, perform, getAggregationResponse, verifyWithRequest, builder open/close, "
                 "verifyWithPolicy); symbolic 64-bit root level, hash algorithm id among those with a 20-byte (SHA-1, RIPEMD-160) or 32-byte (SHA2-256, SHA3-256, SM3) digest, digest bytes, "
                 "presence of a caller-supplied verification context",
        "instances": [{"label": "hl32", "defines": ["HL=32"]}, {"label": "hl20", "defines": ["HL=20"]}],
    }


def h1_signreq():
    return {
        "name": "h1_signreq", "src": "h1_signreq.c",
        "env": ["ctx", "hash_model", "list_wrap", "fmt_stub"],
        "tus": ["signature", "types_base", "hash"],
        "unwind": 4, "harness_unwind": 70, "object_bits": 10, "timeout": 120, "mem_gb": 8,
        "functions": ["KSI_createSignRequest", "KSI_AggregationReq_new", "KSI_AggregationReq_setRequestHash", "KSI_AggregationReq_setRequestLevel", "KSI_AggregationReq_free",
                      "KSI_DataHash_extract", "KSI_isHashAlgorithmTrusted"],
        "bound": "all int levels; hash algorithm id symbolic among all ids libksi knows with the instance's digest length (20, 28, 32, 48, 64 bytes); all digest bytes symbolic",
        "instances": [{"label": "hl%d" % n, "defines": ["HL=%d" % n]} for n in (20, 32, 64)],
        "thorough": {"instances": [{"label": "hl%d" % n, "defines": ["HL=%d" % n]} for n in (20, 28, 32, 48, 64)]},
    }


def h3_vwr():
    insts = [{"label": "ids%d" % i, "defines": ["IDS=%d" % i]} for i in range(5)]
    insts += [{"label": "noreq", "defines": ["NOREQ=1"]}, {"label": "noresp", "defines": ["NORESP=1"]}]
    insts += [{"label": "ids%d_nostatus" % i, "defines": ["IDS=%d" % i, "NOSTATUS=1"]} for i in (0, 1, 2)]
    return {
        "name": "h3_vwr", "src": "h3_vwr.c",
        "env": ["ctx", "hash_model", "list_wrap", "fmt_stub"],
        "tus": ["hash"],
        "unwind": 4, "object_bits": 10, "timeout": 120, "mem_gb": 8,
        "functions": ["KSI_AggregationResp_verifyWithRequest", "KSI_Integer_equals"],
        "bound": "typed response / request objects; presence and identity of the two id objects concrete per instance; 64-bit id values and the response status symbolic",
        "instances": insts,
    }


def h4_open():
    return {
        "name": "h4_open", "src": "h4_open.c",
        "env": ["ctx", "hash_model", "list_wrap", "fmt_stub"],
        "tus": ["tlv", "types", "net", "signature", "hashchain", "hash", "verification", "policy"],
        "unwind": 12, "unwindset": ["KSI_TLV_free.0:3", "KSI_List_free.0:12"], "object_bits": 12, "timeout": 120, "mem_gb": 8,
        "functions": ["KSI_SignatureBuilder_openFromAggregationResp", "KSI_convertAggregatorStatusCode", "KSI_SignatureBuilder_open", "KSI_TLV_appendNestedTlv", "KSI_TLV_getNestedList"],
        "bound": "response element with 8 children of concrete tags (all five bookkeeping tags interleaved with 0x801/0x802/0x805) or 3 children; symbolic 64-bit status and response tag; "
                 "KSI_TLV_clone replaced by a structural clone (tag + children) on the public TLV API",
        "instances": [{"label": "st_mix8", "defines": []}, {"label": "nost_mix8", "defines": ["HAS_STATUS=0"]}, {"label": "nobase", "defines": ["HAS_BASE=0"]},
                      {"label": "st_keep3", "defines": ["NCH=3", "TAGS={0x801,0x801,0x803}"]}],
    }


def h5_async_sig():
    return {
        "name": "h5_async_sig", "src": "h5_async_sig.c",
        "env": ["ctx", "list_wrap", "fmt_stub"],
        "tus": [],
        "unwind": 4, "object_bits": 10, "timeout": 120, "mem_gb": 8,
        "functions": ["KSI_AsyncHandle_getSignature", "createSignature"],
        "bound": "one handle; callees outside net_async.c are stubs with symbolic status; symbolic 64-bit request level and its presence; handle with / without request and response",
        "instances": [{"label": "full", "defines": []}, {"label": "noresp", "defines": ["HAS_RESP=0"]}, {"label": "noreq", "defines": ["HAS_REQ=0"]}],
    }


def h5_async_match():
    """handleResponse id / slot / state matching: the C06 asynchronous queue harness (same source), one and two replies"""
    spec = importlib.util.spec_from_file_location("c06plan", os.path.join(os.path.dirname(os.path.abspath(__file__)), "..", "C06", "mkplan.py"))
    m = importlib.util.module_from_spec(spec); spec.loader.exec_module(m)
    h = m.h5_async(0)
    h["name"] = "h5_async_match"; h["src"] = "../C06/h5_async.c"
    h["instances"] = [i for i in h["instances"] if i["label"] in ("n1", "n2")]
    h["thorough"] = {"instances": h["instances"]}
    return h


def h5_sync_resp():
    """blocking reply handling (net.c KSI_RequestHandle_getAggregationResponse / getExtendResponse): the C06 harness, run under C07 as well because
    'error reply => no signature' of the blocking signing path rests on it"""
    spec = importlib.util.spec_from_file_location("c06plan", os.path.join(os.path.dirname(os.path.abspath(__file__)), "..", "C06", "mkplan.py"))
    m = importlib.util.module_from_spec(spec); spec.loader.exec_module(m)
    h = m.h5_sync()
    h["name"] = "h5_sync_resp"; h["src"] = "../C06/h5_sync.c"
    return h


def plan():
    return {
        "property": "C07",
        "outside": "the transports (libcurl, sockets, TCP/HTTP framing: C13/C14), the HA client, the block signer (C16), request serialization (C09/C10), the internal verification "
                   "policy itself (C01/C02); the server behaviours 'chains for another hash' and 'internally inconsistent chains' are refused by KSI_Signature_verifyWithPolicy, whose "
                   "correctness is C01/C02's subject - here it is a gate with a symbolic verdict",
        "assumptions": ["callee stubs return an arbitrary status and, on KSI_OK, set their out-parameter (the only contract used)",
                        "KSI_TLV_clone modelled as a structural clone (tag + children) in h4_open"],
        "manifest": {
            "claimed": True,
            "level_text": "Bounded symbolic execution (CBMC) of the real signature.c / signature_builder.c / types.c / net_async.c code. (H1) KSI_createSignRequest, for all int levels and every "
                          "hash algorithm id of digest length 20/32/64 (thorough also 28/48): refuses levels outside 0..255 and deprecated algorithms without producing anything, otherwise the "
                          "request holds the caller's hash object and level unchanged. (H2) KSI_Signature_signAggregatedWithPolicy with every callee outside signature.c stubbed: for ALL "
                          "combinations of callee outcomes success implies send, perform, getAggregationResponse, verifyWithRequest, builder open, close(noVerify, caller's level), "
                          "verifyWithPolicy(caller's hash) each returned OK once, in this order, on the same objects; any failure returns that status, reaches no later gate, leaves *signature "
                          "untouched and releases request, handle, response, builder and half-built signature exactly once; nothing is sent for an untrusted hash or a level > 0xff. (H3) "
                          "KSI_AggregationResp_verifyWithRequest == (request present and both ids present and 64-bit equal). (H4) openFromAggregationResp: non-zero status -> mapped "
                          "KSI_SERVICE_* error and no builder; status 0 -> signature element made of exactly the non-bookkeeping children in order. (H5) reply handling: the blocking getAggregationResponse / getExtendResponse "
                          "return a response object only from a MAC-verified PDU without error payload - an error payload yields no response object and (non-zero status) an error even when "
                          "a well-formed response payload is present; asynchronous path: a handle receives "
                          "a response only if MAC-verified, id/slot/state match, verifyWithRequest OK and status 0; createSignature verifies against the handle's own request hash and level.",
            "level_note": "Compositional (gate-order) evidence: callees are stubs with symbolic verdicts, so 'a reply for another hash / with inconsistent chains is refused' reduces to the final "
                          "KSI_Signature_verifyWithPolicy(sign, requested hash) gate being mandatory (shown) plus the correctness of internal verification (C01/C02, not shown here). With a "
                          "caller-supplied KSI_VerificationContext the documented behaviour is that the caller's context (and its document hash) is used. KSI_TLV_clone is modelled; child tag "
                          "sequences in H4 are concrete. Transports, HA client and block signer are outside.",
        },
        "harnesses": [h1_signreq(), h2_gate(), h3_vwr(), h4_open(), h5_async_match(), h5_async_sig(), h5_sync_resp()],
    }


if __name__ == "__main__":
    p = plan()
    out = os.path.join(os.path.dirname(os.path.abspath(__file__)), "plan.json")
    json.dump(p, open(out, "w"), indent=1)
    print("wrote", out, sum(len(h.get("instances") or [1]) for h in p["harnesses"]), "quick instances")
