/* C19 H-2: tlv.c under allocation failure: build (new, setRawValue, appendNestedTlv), serialize,
 * parse + getNestedList, free.  (KSI_TLV_clone is outside, see below.) */
#include "c19.h"
#include "tlv.h"
#include "verif_post.h"
static u8 blob[6];
static int run(KSI_CTX *ctx, u8 *out, size_t outsz, size_t *outlen, KSI_TLV **keep1, KSI_TLV **keep2, KSI_TLV **keep3) {
	int res; KSI_TLV *top = NULL, *c = NULL, *p = NULL, *cl = NULL; KSI_LIST(KSI_TLV) *lst = NULL;
	u8 pay[2]; pay[0] = ND(u8, pay); pay[1] = ND(u8, pay);
	res = KSI_TLV_new(ctx, 0x01, 0, 0, &top); if (res != KSI_OK) goto done;
	res = KSI_TLV_new(ctx, 0x02, 1, 0, &c); if (res != KSI_OK) goto done;
	res = KSI_TLV_setRawValue(c, pay, 2); if (res != KSI_OK) goto done;
	res = KSI_TLV_appendNestedTlv(top, c); if (res != KSI_OK) goto done;
	c = NULL;
	res = KSI_TLV_serialize_ex(top, out, outsz, outlen); if (res != KSI_OK) goto done;
	/* parsed in place (KSI_TLV_parseBlob = calloc + memcpy + this; the copy would hide the concrete length bytes from CBMC) */
	blob[0] = 0x01; blob[1] = 0x04; blob[2] = 0x02; blob[3] = 0x02; blob[4] = pay[0]; blob[5] = pay[1];
	res = KSI_TLV_parseBlob2(ctx, blob, sizeof(blob), 0, &p); if (res != KSI_OK) goto done;
	res = KSI_TLV_getNestedList(p, &lst); if (res != KSI_OK) goto done;
	/* KSI_TLV_clone (serialise into a 64 KiB heap buffer and re-parse it) is outside: the re-parse of heap bytes is intractable for CBMC */
done:
	KSI_TLV_free(c);
	*keep1 = top; *keep2 = p; *keep3 = cl;
	return res;
}
void harness(void) {
	VERIF_ctx_init(); KSI_CTX *ctx = VERIF_ctx;
	u8 out[16]; size_t ol = 0; KSI_TLV *a = NULL, *b = NULL, *c = NULL;
	C19_ARM();
	int res = run(ctx, out, sizeof(out), &ol, &a, &b, &c);
	C19_DISARM();
	C19_OUTCOME(res, ol == 6 && out[0] == 0x01 && out[1] == 0x04 && out[2] == 0x42 && out[3] == 0x02);
	/* the involved objects must remain usable after the failed call (faults disarmed) */
	if (a != NULL) { u8 o2[16]; size_t l2 = 0; int r2 = KSI_TLV_serialize_ex(a, o2, sizeof(o2), &l2);
		CHECK(r2 == KSI_OK && (l2 == 2 || l2 == 6) && o2[0] == 0x01 && o2[1] == l2 - 2, "C19.H2 a tree that saw a failed allocation still serialises to a well-formed element"); }
	if (b != NULL) { KSI_LIST(KSI_TLV) *l3 = NULL; int r3 = KSI_TLV_getNestedList(b, &l3);
		CHECK(r3 == KSI_OK && KSI_TLVList_length(l3) == 1, "C19.H2 a parsed element that saw a failed expansion can still be expanded"); }
	KSI_TLV_free(a); KSI_TLV_free(b); KSI_TLV_free(c);
	a = b = c = NULL; ol = 0;
	res = run(ctx, out, sizeof(out), &ol, &a, &b, &c);
	CHECK(res == KSI_OK && ol == 6, "C19.H2 the operation repeated without fault succeeds");
	KSI_TLV_free(a); KSI_TLV_free(b); KSI_TLV_free(c);
	WITNESS_POINT("tlv scenario finished");
#if FAULT_AT >= 1 && FAULT_AT <= 6
	if (VERIF_fault_hit) WITNESS_POINT("fault was injected");
#endif
}
