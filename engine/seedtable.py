#!/usr/bin/env python3
"""print a markdown table of the seeded mutations under /verif/seeded and which checks caught them"""
import json, glob, os
V = os.path.dirname(os.path.dirname(os.path.abspath(__file__)))
print("| seed | change (summary) | needs to manifest | caught by | first failing check |")
print("|---|---|---|---|---|")
for p in sorted(glob.glob(os.path.join(V, "seeded", "*", "meta.json"))):
    m = json.load(open(p)); sid = os.path.basename(os.path.dirname(p))
    c = m.get("confirmation", {})
    first = ""
    for k, v in c.get("checks", {}).items():
        if v.get("first"):
            first = v["first"][0].split(" replay-result")[0].replace("harness=", "").replace("|", "/")[:170]
            break
    caught = ", ".join(m.get("caught_by", [])) or "**missed**"
    print("| %s | %s | %s | %s | %s |" % (sid, str(m.get("summary", ""))[:230].replace("|", "/").replace("\n", " "), str(m.get("needs", ""))[:200].replace("|", "/").replace("\n", " "), caught, first))
