#ifndef VERIF_CTX_H_
#define VERIF_CTX_H_
extern KSI_CTX *VERIF_ctx;
extern unsigned VERIF_err_pushes, VERIF_alloc_count, VERIF_fault_at;
extern int VERIF_fault_hit;
void VERIF_ctx_init(void);
#endif
