/* C19 H-1: list.c under allocation failure: new, 11 appends (forces one growth of the element array),
 * insert, remove, find, free. */
#include "c19.h"
#include "list.h"
#include "verif_post.h"
static int freed[32];
static void el_free(void *p) { if (p != NULL) { int *ip = p; freed[*ip]++; } }
static int vals[16];
static int run(KSI_List **out, unsigned *n_in) {
	KSI_List *l = NULL; int res; unsigned n = 0;
	res = KSI_List_new(el_free, &l); if (res != KSI_OK) goto done;
	for (unsigned i = 0; i < 11; i++) { res = KSI_List_append(l, &vals[i]); if (res != KSI_OK) goto done; n++; }
	res = KSI_List_insertAt(l, 3, &vals[11]); if (res != KSI_OK) goto done; n++;
	res = KSI_List_remove(l, 0, NULL); if (res != KSI_OK) goto done; n--;   /* frees vals[0] through el_free */
done:
	*out = l; *n_in = n; return res;
}
void harness(void) {
	VERIF_ctx_init();
	for (int i = 0; i < 16; i++) vals[i] = i;
	for (int i = 0; i < 32; i++) freed[i] = 0;
	KSI_List *l = NULL; unsigned n = 0;
	C19_ARM();
	int res = run(&l, &n);
	C19_DISARM();
	C19_OUTCOME(res, l != NULL && KSI_List_length(l) == 11);
	if (l != NULL) {
		CHECK(KSI_List_length(l) == n, "C19.H1 after a failed call the list holds exactly the elements accepted so far");
		/* the involved object must remain usable: keep appending to the SAME list without faults (12 more
		 * elements: crosses at least one growth of the element array) and read everything back */
		static int more[12]; size_t before = KSI_List_length(l);
		for (unsigned i = 0; i < 12; i++) { more[i] = 12 + (int)i; int r2 = KSI_List_append(l, &more[i]); CHECK(r2 == KSI_OK, "C19.H1 the list that saw a failed allocation accepts further elements"); }
		CHECK(KSI_List_length(l) == before + 12, "C19.H1 length after continued use");
		for (unsigned i = 0; i < 12; i++) { void *e = NULL; int r3 = KSI_List_elementAt(l, before + i, &e); CHECK(r3 == KSI_OK && e == &more[i], "C19.H1 elements appended after the failed call are stored intact"); }
	}
	KSI_List_free(l);
	for (int i = 0; i < 24; i++) CHECK(freed[i] <= 1, "C19.H1 no element destructor runs twice");
	/* fault-free repetition */
	for (int i = 0; i < 32; i++) freed[i] = 0;
	l = NULL;
	res = run(&l, &n);
	CHECK(res == KSI_OK && KSI_List_length(l) == 11, "C19.H1 the operation repeated without fault succeeds");
	KSI_List_free(l);
	WITNESS_POINT("list scenario finished");
#if FAULT_AT >= 1 && FAULT_AT <= 4
	if (VERIF_fault_hit) WITNESS_POINT("fault was injected");
#endif
}
