/* C01 H-a (metadata padding): AggregationChainMetaDataVerification (INT-11).
 * Documented meaning (verification_rule.h + KSI format, metadata record): a metadata sibling must not be confusable with
 * an imprint.  Either it starts with a padding element - tag 0x1E, TLV8 header, N and F flags set, value 01 or 01 01,
 * it is the FIRST element, there is only one, and the whole record has even length - or, without padding, its bytes
 * must not have the form "known hash algorithm id followed by exactly that algorithm's digest length".
 * The first link of the first chain carries a metadata record with a concrete LAYOUT per instance (header forms and
 * lengths and TAGS of its one or two elements: a symbolic tag makes the length of the rule's internal result list symbolic,
 * which CBMC cannot handle) and symbolic header flag bits (N, F) and value bytes. */
#include "verif.h"
#include "internal.h"
#include "verification_rule.h"
#include "ctx.h"
#include "hash_model.h"
#include "verif_post.h"
#include "types_base.c"
#define SB_WITH_METADATA 1
#include "sig_builder.h"

#ifndef MD_E0_T16
#define MD_E0_T16 0      /* first element has a TLV16 header */
#endif
#ifndef MD_E0_LEN
#define MD_E0_LEN 2
#endif
#ifndef MD_NE
#define MD_NE 2          /* number of elements in the record */
#endif
#ifndef MD_E1_LEN
#define MD_E1_LEN 2
#endif
#ifndef MD_E0_TAG
#define MD_E0_TAG 0x1E
#endif
#ifndef MD_E1_TAG
#define MD_E1_TAG 0x01
#endif
#define E0_HDR (MD_E0_T16 ? 4 : 2)
#define PAYLOAD (E0_HDR + MD_E0_LEN + (MD_NE > 1 ? 2 + MD_E1_LEN : 0))
#define IS(res_, rc_, ec_) (res == (res_) && r.resultCode == (rc_) && r.errorCode == (ec_))

static u8 raw[2 + PAYLOAD];

/* f0 / f1: the N (0x40) and F (0x20) flag bits of the two element headers.  They are symbolic in harness(), which
 * calls this body once per value so that every header byte is a constant while the record is parsed. */
static void check_record(const u8 f0, const u8 f1) {
	unsigned o = 0;
	raw[o++] = 0x04; raw[o++] = (u8)PAYLOAD;
	u8 b0 = f0; u8 b1 = (u8)(MD_E0_TAG & 0xff);
	u8 v0[MD_E0_LEN > 0 ? MD_E0_LEN : 1];
#if MD_E0_T16
	b0 |= 0x80 | ((MD_E0_TAG >> 8) & 0x1f);
	raw[o++] = b0; raw[o++] = b1; raw[o++] = 0; raw[o++] = (u8)MD_E0_LEN;
	unsigned tag0 = ((unsigned)(b0 & 0x1f) << 8) | b1;
#else
	b0 |= (MD_E0_TAG & 0x1f);
	raw[o++] = b0; raw[o++] = (u8)MD_E0_LEN;
	unsigned tag0 = b0 & 0x1f;
#endif
	for (unsigned i = 0; i < MD_E0_LEN; i++) { v0[i] = ND(u8, e0_val); raw[o++] = v0[i]; }
	unsigned tag1 = 0xffff;
#if MD_NE > 1
	u8 c0 = f1 | (MD_E1_TAG & 0x1f);
	raw[o++] = c0; raw[o++] = (u8)MD_E1_LEN;
	for (unsigned i = 0; i < MD_E1_LEN; i++) raw[o++] = ND(u8, e1_val);
	tag1 = c0 & 0x1f;
#endif
	KSI_MetaDataElement *md = sb_link[0][0]->metaData;
	md->impl = NULL;
	int pr = KSI_TlvElement_parse(raw, 2 + PAYLOAD, &md->impl);
	ASSUME(pr == KSI_OK);

	KSI_RuleVerificationResult r;
	sb_result_init(&r);
	int res = KSI_VerificationRule_AggregationChainMetaDataVerification(&sb_vc, &r);

	/* ---- reference ---- */
	unsigned npad = (tag0 == 0x1E) + (tag1 == 0x1E);
	int ok;
	if (npad >= 2) ok = 0;
	else if (npad == 1) {
		int val_ok = (MD_E0_LEN == 1 && v0[0] == 0x01) || (MD_E0_LEN == 2 && v0[0] == 0x01 && v0[MD_E0_LEN > 1 ? 1 : 0] == 0x01);
		ok = (tag0 == 0x1E) && !MD_E0_T16 && (b0 & 0x40) && (b0 & 0x20) && val_ok && (PAYLOAD % 2 == 0);
	} else {
		unsigned dl = sb_alg_len(raw[2]);
		ok = !(dl != 0 && dl + 1 == PAYLOAD);
	}
	if (ok) { CHECK(IS(KSI_OK, KSI_VER_RES_OK, KSI_VER_ERR_NONE), "C01.Hm metadata with a valid first padding element, or not confusable with an imprint, is accepted");
#if W_PAD_OK
		if (npad == 1) WITNESS_POINT("valid padding accepted");
#endif
#if MD_E0_TAG != 0x1E && (MD_NE < 2 || MD_E1_TAG != 0x1E)
		if (npad == 0) WITNESS_POINT("metadata without padding accepted");
#endif
	} else { CHECK(IS(KSI_OK, KSI_VER_RES_FAIL, KSI_VER_ERR_INT_11), "C01.Hm invalid padding or imprint-like metadata yields FAIL INT-11");
#if W_PAD_BAD
		if (npad == 1 && tag0 == 0x1E) WITNESS_POINT("invalid padding element rejected");
#endif
#if MD_NE > 1 && MD_E0_TAG != 0x1E && MD_E1_TAG == 0x1E
		if (npad == 1 && tag0 != 0x1E) WITNESS_POINT("padding that is not the first element rejected");
#endif
#if MD_NE > 1 && MD_E0_TAG == 0x1E && MD_E1_TAG == 0x1E
		if (npad == 2) WITNESS_POINT("two padding elements rejected");
#endif
#if W_IMPRINT
		if (npad == 0) WITNESS_POINT("metadata that reads as an imprint rejected");
#endif
	}
}

void harness(void) {
	VERIF_ctx_init();
	VERIF_hm_init(0);
	KSI_CTX *ctx = VERIF_ctx;
	sb_build(ctx);
	u8 f0 = ND(u8, e0_flags), f1 = ND(u8, e1_flags);
	ASSUME(f0 < 4 && f1 < 4);
#if MD_NE < 2
	ASSUME(f1 == 0);
#endif
	switch (f0 * 4 + f1) {
#define CASE(a, b) case (a) * 4 + (b): check_record((u8)((a) << 5), (u8)((b) << 5)); break;
		CASE(0, 0) CASE(1, 0) CASE(2, 0) CASE(3, 0)
#if MD_NE > 1
		CASE(0, 1) CASE(1, 1) CASE(2, 1) CASE(3, 1)
		CASE(0, 2) CASE(1, 2) CASE(2, 2) CASE(3, 2)
		CASE(0, 3) CASE(1, 3) CASE(2, 3) CASE(3, 3)
#endif
		default: break;
	}
}
