/* C16 H-1 / H-2: real tree_builder.c (included below) on the memoising hash model.
 *
 * Shape (concrete per instance): NLEAVES accepted leaves, KINDS[i] = 0 hash leaf (SHA-1 imprint) / 1 metadata
 * leaf (4-byte payload), ALG = algorithm of the inner nodes, REFUSE = -1 (every leaf acceptable) or the position
 * in the sequence of the one additional leaf that the reference says must be refused.
 * Symbolic: all leaf digests / payload bytes, every leaf level 0..255, builder->maxTreeLevel (MAXMODE 0: any
 * short, <= 0 means no limit; 1: no limit; 2: 1..255; 3: the concrete value MAXVAL).
 * With LEVELS={...} the leaf levels are concrete per instance (H-2b only, see below).
 *
 * H-1 (REFUSE = -1): assuming that the REFERENCE (c16_ref.h) accepts every leaf, every add returns KSI_OK and a
 *   handle; KSI_TreeBuilder_close succeeds iff the reference root level is <= 255; then root hash and level
 *   equal the reference left-to-right merge and, for EVERY leaf, the chain returned by
 *   KSI_TreeLeafHandle_getAggregationChain, folded by the harness' own chain formula from the leaf's value
 *   and level, ends at exactly the root imprint and root level; a further add after close is refused.
 * H-2 (REFUSE = r): the leaf at position r is not acceptable according to the reference (would-be root level above
 *   maxTreeLevel, or a carry join above level 255), all others are: that add returns an error and no handle,
 *   with CBMC's pointer / double-free / deallocated-object checks on.
 *   H-2a (STOP_AFTER_REFUSAL, all levels symbolic): the decision and the memory safety of the refused add.
 *   H-2b (LEVELS concrete per instance, digests symbolic): afterwards, possibly after more accepted leaves,
 *   the tree closes to the reference root of the accepted leaves with valid chains for all of them, or close
 *   fails iff the reference root level leaves 0..255.  (The split is forced by CBMC: a refusal whose outcome
 *   is symbolic leaves a merged success/failure state behind on which everything later explodes.)
 * Never calls KSI_TreeBuilder_free (DESIGN C16 engineering note).
 * While the reference says an operation must succeed, error exits of tree_builder.c are observed and cut
 * (VERIF_expect_no_error, see env/ctx_expect.c and common/c16_instr.h). */
#include "verif.h"
#include "internal.h"
#include "tree_builder.h"
#include "hashchain.h"
#include "impl/hashchain_impl.h"
#include "ctx.h"
#include "hash_model.h"
#include "verif_post.h"
#include "c16_ref.h"
#include "c16_md.h"
#include "c16_instr.h"
#include "tree_builder.c"

#ifndef NLEAVES
#define NLEAVES 3
#endif
#ifndef KINDS
#define KINDS {0, 0, 0, 0, 0, 0, 0, 0, 0, 0}
#endif
#ifndef ALG
#define ALG KSI_HASHALG_SHA1
#endif
#ifndef REFUSE
#define REFUSE (-1)
#endif
#ifndef MAXMODE
#define MAXMODE 0
#endif
#define MAXLINKS 8
#define NADDS (NLEAVES + (REFUSE >= 0 ? 1 : 0))

static const int kinds[10] = KINDS;
#ifdef LEVELS
static const int conc_levels[10] = LEVELS;
#endif

/* the accepted leaves, in order */
static struct c16_val leafv[NLEAVES];
static int leafkind[NLEAVES];
static KSI_TreeLeafHandle *handle[NLEAVES];

static int same_bytes(const struct c16_val *a, const unsigned char *p, size_t n) {
	int eq = (n == a->len);
	for (unsigned k = 0; k < C16_VMAX; k++) if (eq && k < a->len && p[k] != a->b[k]) eq = 0;
	return eq;
}

/* fold the chain of leaf i by the chain formula and compare with the root */
static void check_leaf_chain(unsigned i, const struct c16_val *root) {
	KSI_AggregationHashChain *chain = NULL;
	int res = KSI_TreeLeafHandle_getAggregationChain(handle[i], &chain);
	CHECK(res == KSI_OK && chain != NULL, "C16.H1 an aggregation chain is returned for every accepted leaf");
	if (res != KSI_OK || chain == NULL) return;

	CHECK(chain->aggrHashId != NULL && KSI_Integer_getUInt64(chain->aggrHashId) == (KSI_uint64_t)ALG, "C16.H1 chain carries the builder's hash algorithm");
	if (leafkind[i] == 0) {
		const unsigned char *imp = NULL; size_t il = 0;
		CHECK(chain->inputHash != NULL, "C16.H1 chain of a hash leaf has an input hash");
		if (chain->inputHash == NULL) return;
		KSI_DataHash_getImprint(chain->inputHash, &imp, &il);
		CHECK(same_bytes(&leafv[i], imp, il), "C16.H1 chain input hash is the leaf's hash");
	}

	struct c16_val cur = leafv[i], sib, nxt;
	u64 level = leafv[i].level;
	size_t n = KSI_HashChainLinkList_length(chain->chain);
	CHECK(n <= MAXLINKS, "C16.H1 chain no longer than the harness bound");
	for (unsigned k = 0; k < MAXLINKS; k++) {
		if (k < n) {
			KSI_HashChainLink *link = NULL;
			res = KSI_HashChainLinkList_elementAt(chain->chain, k, &link);
			CHECK(res == KSI_OK && link != NULL, "C16.H1 chain link readable");
			if (res != KSI_OK || link == NULL) return;
			u64 corr = link->levelCorrection != NULL ? KSI_Integer_getUInt64(link->levelCorrection) : 0;
			CHECK(corr <= 255, "C16.H1 level correction fits the chain format");
			level = level + corr + 1;
			CHECK(level <= 255, "C16.H1 chain level stays within 0..255");
			CHECK((link->imprint != NULL) != (link->metaData != NULL) && link->legacyId == NULL, "C16.H1 link has exactly one sibling: imprint or metadata");
			sib.level = 0;
			if (link->imprint != NULL) {
				const unsigned char *imp = NULL; size_t il = 0;
				KSI_DataHash_getImprint(link->imprint, &imp, &il);
				CHECK(il <= C16_VMAX, "C16.H1 sibling imprint length");
				sib.len = (unsigned)il;
				for (unsigned q = 0; q < C16_VMAX; q++) sib.b[q] = (q < il) ? imp[q] : 0;
			} else if (link->metaData != NULL) {
				KSI_TlvElement *el = link->metaData->impl;
				CHECK(el != NULL && el->ftlv.tag == 0x04 && el->ftlv.dat_len <= C16_VMAX, "C16.H1 metadata sibling is a TLV 04 element");
				if (el == NULL) return;
				sib.len = (unsigned)el->ftlv.dat_len;
				for (unsigned q = 0; q < C16_VMAX; q++) sib.b[q] = (q < el->ftlv.dat_len) ? el->ptr[el->ftlv.hdr_len + q] : 0;
			} else return;
			if (link->isLeft) c16_H(ALG, &cur, &sib, (unsigned)level, &nxt);
			else c16_H(ALG, &sib, &cur, (unsigned)level, &nxt);
			cur = nxt;
		}
	}
	CHECK(c16_H_missing == 0, "C16.H1 every chain step recomputes a hash the builder computed (left||right||level)");
	CHECK(same_bytes(root, cur.b, cur.len), "C16.H1 folded chain ends at the root hash");
	CHECK(level == root->level, "C16.H1 folded chain ends at the root level");
}

void harness(void) {
	VERIF_ctx_init();
	VERIF_hm_init(1);
	KSI_CTX *ctx = VERIF_ctx;
	int res;
	KSI_TreeBuilder *b = NULL;
	res = KSI_TreeBuilder_new(ctx, ALG, &b);
	ASSUME(res == KSI_OK);

	short maxl;
#if MAXMODE == 1
	maxl = 0;
#elif MAXMODE == 3
	maxl = MAXVAL;              /* concrete limit (H-2b) */
#else
	maxl = (short)ND(u16, maxlevel);
#if MAXMODE == 2
	ASSUME(maxl >= 1 && maxl <= 255);
#endif
#endif
	b->maxTreeLevel = maxl;     /* public struct member: this is how the limit is configured (tree_builder.h) */

	struct c16_lf F;             /* reference forest, levels only */
	c16_lf_init(&F);
	unsigned nacc = 0;           /* concrete */
	unsigned nmd = 0;

	for (unsigned i = 0; i < NADDS; i++) {
		/* ---- a fresh symbolic leaf ---- */
		struct c16_val v; KSI_DataHash *hsh = NULL; KSI_MetaData *md = NULL;
#ifdef LEVELS
		int level = conc_levels[i];                                    /* concrete per instance (H-2b) */
#else
		int level = ND(int, level); ASSUME(level >= 0 && level <= 255);
#endif
		unsigned kind = (unsigned)kinds[i];
		v.level = (unsigned)level;
		for (unsigned k = 0; k < C16_VMAX; k++) v.b[k] = 0;
		if (kind == 0) {
			u8 d[20]; for (unsigned k = 0; k < 20; k++) { d[k] = ND(u8, leaf); v.b[1 + k] = d[k]; }
			v.b[0] = KSI_HASHALG_SHA1; v.len = 21;
			res = KSI_DataHash_fromDigest(ctx, KSI_HASHALG_SHA1, d, 20, &hsh); ASSUME(res == KSI_OK);
		} else {
			u8 p[C16_MDLEN]; for (unsigned k = 0; k < C16_MDLEN; k++) { p[k] = ND(u8, leaf); v.b[k] = p[k]; }
			v.len = C16_MDLEN;
			md = c16_md_make(ctx, nmd++, p);
		}
		/* ---- reference verdict ---- */
		struct c16_lf G = F;
		unsigned carry_hi = c16_lf_add(&G, (unsigned)level);      /* highest level among the carry joins */
		unsigned root_if = c16_lf_close(&G);                      /* root level if the tree were closed after this leaf */
		int limit_ok = (maxl <= 0) | (root_if <= (unsigned)maxl);
		int ref_accept = limit_ok & (carry_hi <= 255);
		const int must_refuse = ((int)i == REFUSE);
		if (must_refuse) ASSUME(!ref_accept); else ASSUME(ref_accept);

		KSI_TreeLeafHandle *h = NULL;
		VERIF_expect_no_error = !must_refuse;
		if (kind == 0) res = KSI_TreeBuilder_addDataHash(b, hsh, level, &h);
		else res = KSI_TreeBuilder_addMetaData(b, md, level, &h);
		VERIF_expect_no_error = 0;

		if (must_refuse) {
			CHECK(res != KSI_OK, "C16.H2 a leaf beyond the maximum level or beyond level 255 is refused");
			CHECK(h == NULL, "C16.H2 no handle is returned for a refused leaf");
			/* which witness points are reachable depends on the instance; the plan generator says so (WIT_*) */
#ifdef WIT_REFUSE_LIMIT
			if (!limit_ok) WITNESS_POINT("leaf refused because of maxTreeLevel");
#endif
#ifdef WIT_REFUSE_CARRY
			if (limit_ok) WITNESS_POINT("leaf refused because a carry join would exceed level 255");
#endif
#ifdef STOP_AFTER_REFUSAL
			return;      /* H-2a: the decision and the memory safety of the refused add itself, all levels symbolic */
#endif
		} else {
			CHECK(res == KSI_OK, "C16.H1 an acceptable leaf is accepted");
			CHECK(h != NULL, "C16.H1 a handle is returned for an accepted leaf");
			if (res != KSI_OK || h == NULL) return;
			F = G;
			leafv[nacc] = v; leafkind[nacc] = (int)kind; handle[nacc] = h; nacc++;
		}
	}

	/* ---- close ---- */
	unsigned lroot = c16_lf_close(&F);
	if (lroot > 255) {
		/* possible only without a limit: the last joins leave 0..255 */
		res = KSI_TreeBuilder_close(b);
		CHECK(res != KSI_OK, "C16.H1 close fails when the root level would leave 0..255");
#ifdef WIT_CLOSE_OVERFLOW     /* reachable iff there is no limit and NLEAVES is not a power of two */
		WITNESS_POINT("close refused: root level above 255");
#endif
		return;
	}
	VERIF_expect_no_error = 1;
	res = KSI_TreeBuilder_close(b);
	CHECK(res == KSI_OK, "C16.H1 close succeeds when the root level stays within 0..255");
	if (res != KSI_OK) return;
	CHECK(VERIF_hm_overflow == 0, "C16.H1 hash model large enough");

	/* ---- reference tree with hashes (now that every message is on record) ---- */
	struct c16_forest R; struct c16_val root;
	c16_forest_init(&R);
	for (unsigned i = 0; i < NLEAVES; i++) c16_forest_add(&R, ALG, &leafv[i]);
	(void)c16_forest_close(&R, ALG, &root);
	CHECK(c16_H_missing == 0, "C16.H1 the builder hashed every join of the reference merge (left||right||level)");

	CHECK(b->rootNode != NULL, "C16.H1 closed builder has a root node");
	if (b->rootNode == NULL) return;
	CHECK(b->rootNode->level == root.level, "C16.H1 root level = level of the reference merge");
#if NLEAVES == 1
	if (kinds[0] == 0)
#endif
	{
		const unsigned char *imp = NULL; size_t il = 0;
		CHECK(b->rootNode->hash != NULL, "C16.H1 root node carries a hash");
		if (b->rootNode->hash == NULL) return;
		KSI_DataHash_getImprint(b->rootNode->hash, &imp, &il);
		CHECK(same_bytes(&root, imp, il), "C16.H1 root hash = hash of the reference merge");
		for (unsigned i = 0; i < NLEAVES; i++) check_leaf_chain(i, &root);
	}
	VERIF_expect_no_error = 0;

	/* ---- a closed tree takes no more leaves (tree_builder.h) ---- */
	{
		u8 d[20]; KSI_DataHash *hsh = NULL; KSI_TreeLeafHandle *h = NULL;
		for (unsigned k = 0; k < 20; k++) d[k] = ND(u8, late);
		res = KSI_DataHash_fromDigest(ctx, KSI_HASHALG_SHA1, d, 20, &hsh); ASSUME(res == KSI_OK);
		res = KSI_TreeBuilder_addDataHash(b, hsh, 0, &h);
		CHECK(res != KSI_OK && h == NULL, "C16.H1 a closed tree refuses further leaves");
	}
#if REFUSE < 0
#if MAXMODE != 1
	if (maxl > 0 && root.level == (unsigned)maxl) WITNESS_POINT("tree closed exactly at maxTreeLevel");
#endif
#if NLEAVES >= 2
	if (leafv[0].level > 3 && leafv[NLEAVES - 1].level < 2) WITNESS_POINT("tree closed, mixed leaf levels");
#else
	WITNESS_POINT("single leaf tree closed");
#endif
#elif defined(WIT_CLOSE_OK)
	WITNESS_POINT("tree closed after a refusal, earlier proofs valid");
#endif
}
