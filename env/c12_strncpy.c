/* C12 H-errpush: the C library's strncpy for CBMC runs (C99 7.21.2.4: copies at most n characters of src, then
 * pads with NUL up to n), exact for sources shorter than C12_STRNCPY_CAP characters (asserted, not assumed):
 * the first min(n, CAP) bytes are written one by one, the rest of the padding with one memset of constant size.
 * Why not CBMC's built-in model or a plain loop: KSI_ERR_push copies into 1024-byte fields of the 33 KiB error
 * ring; 4 x 1023 single-byte stores into that object took symex longer than five minutes (each store re-writes
 * the whole array expression).  Compiles to nothing under -DREPLAY (the native replay uses the C library). */
#ifndef REPLAY
#include <stddef.h>
#include <string.h>
#ifndef C12_STRNCPY_CAP
#define C12_STRNCPY_CAP 8
#endif
char *strncpy(char *dst, const char *src, size_t n) {
	int done = 0;
	for (size_t i = 0; i < C12_STRNCPY_CAP; i++) if (i < n) {
		char c = 0;
		if (!done) { c = src[i]; if (c == 0) done = 1; }
		dst[i] = c;
	}
	if (n > C12_STRNCPY_CAP) {
		__CPROVER_assert(done, "strncpy model: source shorter than the modelled bound");
		memset(dst + C12_STRNCPY_CAP, 0, n - C12_STRNCPY_CAP);
	}
	return dst;
}
#endif
