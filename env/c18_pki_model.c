/* PKI model, see c18_pki_model.h.  Trusted base of the C18 harnesses:
 *  - KSI_PKISignature_new / KSI_PKICertificate_new keep the contract of pkitruststore_openssl.c for the
 *    argument checks (NULL / zero length -> KSI_INVALID_ARGUMENT); whether the DER bytes "parse" is a
 *    symbolic outcome (ND tag pki_der_ok): failure = KSI_CRYPTO_FAILURE (signature) / KSI_INVALID_FORMAT
 *    (certificate) exactly as the real constructors report it.  The first C18_PKI_DER_MAX bytes are kept.
 *  - KSI_PKITruststore_verifyPKISignature records its arguments in VERIF_pki_last and returns a symbolic
 *    status code (ND tag pki_verdict).  What OpenSSL does with the bytes is outside the model.
 *  - KSI_CTX_getPKITruststore is base.c:1235 transcribed (base.c is replaced by env/ctx.c): the context's
 *    truststore, created with defaults on first use. */
#include "verif.h"
#include "c18_pki_model.h"
#include "impl/ctx_impl.h"

#ifndef C18_PKI_DER_MAX
#define C18_PKI_DER_MAX 8
#endif

struct VERIF_pki_call VERIF_pki_last;
unsigned VERIF_pki_truststores_created, VERIF_pki_sig_new_calls, VERIF_pki_sig_freed;
int VERIF_pki_sig_der_ok;      /* outcome of the last "does the DER parse" choice in KSI_PKISignature_new (-1: not asked) */

void VERIF_pki_init(void) {
	memset(&VERIF_pki_last, 0, sizeof(VERIF_pki_last));
	VERIF_pki_truststores_created = 0; VERIF_pki_sig_new_calls = 0; VERIF_pki_sig_freed = 0; VERIF_pki_sig_der_ok = -1;
}

static unsigned char *keep_der(const void *raw, size_t raw_len) {
	unsigned char *d = malloc(C18_PKI_DER_MAX);
	const unsigned char *s = raw;
	if (d == NULL) return NULL;
	for (size_t i = 0; i < C18_PKI_DER_MAX; i++) d[i] = (i < raw_len) ? s[i] : 0;
	return d;
}

int KSI_PKITruststore_registerGlobals(KSI_CTX *ctx) { (void)ctx; return KSI_OK; }

int KSI_PKITruststore_new(KSI_CTX *ctx, int setDefaults, KSI_PKITruststore **trust) {
	KSI_PKITruststore *tmp;
	KSI_ERR_clearErrors(ctx);
	if (ctx == NULL || trust == NULL) return KSI_INVALID_ARGUMENT;
	tmp = malloc(sizeof(*tmp));
	if (tmp == NULL) return KSI_OUT_OF_MEMORY;
	tmp->ctx = ctx; tmp->isDefault = setDefaults;
	VERIF_pki_truststores_created++;
	*trust = tmp;
	return KSI_OK;
}
void KSI_PKITruststore_free(KSI_PKITruststore *t) { if (t != NULL) free(t); }

int KSI_CTX_setPKITruststore(KSI_CTX *ctx, KSI_PKITruststore *pki) {
	if (ctx == NULL) return KSI_INVALID_ARGUMENT;
	if (ctx->pkiTruststore != NULL) KSI_PKITruststore_free(ctx->pkiTruststore);
	ctx->pkiTruststore = pki;
	return KSI_OK;
}
int KSI_CTX_getPKITruststore(KSI_CTX *ctx, KSI_PKITruststore **pki) {
	int res; KSI_PKITruststore *t = NULL;
	if (ctx == NULL || pki == NULL) return KSI_INVALID_ARGUMENT;
	if (ctx->pkiTruststore == NULL) {
		res = KSI_PKITruststore_new(ctx, 1, &t); if (res != KSI_OK) return res;
		res = KSI_CTX_setPKITruststore(ctx, t); if (res != KSI_OK) { KSI_PKITruststore_free(t); return res; }
	}
	*pki = ctx->pkiTruststore;
	return KSI_OK;
}

int KSI_PKISignature_new(KSI_CTX *ctx, const void *raw, size_t raw_len, KSI_PKISignature **signature) {
	KSI_PKISignature *tmp;
	KSI_ERR_clearErrors(ctx);
	VERIF_pki_sig_new_calls++;
	if (ctx == NULL || raw == NULL || raw_len == 0 || signature == NULL) return KSI_INVALID_ARGUMENT;
	VERIF_pki_sig_der_ok = ND_BOOL(pki_der_ok);
	if (!VERIF_pki_sig_der_ok) return KSI_CRYPTO_FAILURE;
	tmp = malloc(sizeof(*tmp));
	if (tmp == NULL) return KSI_OUT_OF_MEMORY;
	tmp->ctx = ctx; tmp->der = keep_der(raw, raw_len); tmp->der_len = raw_len;
	*signature = tmp;
	return KSI_OK;
}
void KSI_PKISignature_free(KSI_PKISignature *sig) {
	if (sig != NULL) { VERIF_pki_sig_freed++; free(sig->der); free(sig); }
}
int KSI_PKISignature_serialize(const KSI_PKISignature *sig, unsigned char **raw, size_t *raw_len) {
	if (sig == NULL || raw == NULL || raw_len == NULL) return KSI_INVALID_ARGUMENT;
	*raw = keep_der(sig->der, C18_PKI_DER_MAX); *raw_len = sig->der_len;
	return KSI_OK;
}
int KSI_PKISignature_extractCertificate(const KSI_PKISignature *signature, KSI_PKICertificate **cert) {
	(void)signature; (void)cert; return KSI_CRYPTO_FAILURE;
}

int KSI_PKICertificate_new(KSI_CTX *ctx, const void *der, size_t der_len, KSI_PKICertificate **cert) {
	KSI_PKICertificate *tmp;
	KSI_ERR_clearErrors(ctx);
	if (ctx == NULL || der == NULL || der_len == 0 || cert == NULL) return KSI_INVALID_ARGUMENT;
	if (!ND_BOOL(pki_der_ok)) return KSI_INVALID_FORMAT;
	tmp = malloc(sizeof(*tmp));
	if (tmp == NULL) return KSI_OUT_OF_MEMORY;
	tmp->ctx = ctx; tmp->der = keep_der(der, der_len); tmp->der_len = der_len;
	tmp->notBefore = ND(u64, pki_not_before); tmp->notAfter = ND(u64, pki_not_after);
	*cert = tmp;
	return KSI_OK;
}
void KSI_PKICertificate_free(KSI_PKICertificate *cert) { if (cert != NULL) { free(cert->der); free(cert); } }
int KSI_PKICertificate_serialize(const KSI_PKICertificate *cert, unsigned char **raw, size_t *raw_len) {
	if (cert == NULL || raw == NULL || raw_len == NULL) return KSI_INVALID_ARGUMENT;
	*raw = keep_der(cert->der, C18_PKI_DER_MAX); *raw_len = cert->der_len;
	return KSI_OK;
}
int KSI_PKICertificate_getValidityNotBefore(const KSI_PKICertificate *cert, KSI_uint64_t *time) {
	if (cert == NULL || time == NULL) return KSI_INVALID_ARGUMENT;
	*time = cert->notBefore; return KSI_OK;
}
int KSI_PKICertificate_getValidityNotAfter(const KSI_PKICertificate *cert, KSI_uint64_t *time) {
	if (cert == NULL || time == NULL) return KSI_INVALID_ARGUMENT;
	*time = cert->notAfter; return KSI_OK;
}
char *KSI_PKICertificate_toString(const KSI_PKICertificate *cert, char *buf, size_t buf_len) {
	(void)cert; if (buf != NULL && buf_len > 0) buf[0] = 0; return buf;
}

int KSI_PKITruststore_verifyPKISignature(const KSI_PKITruststore *pki, const unsigned char *data, size_t data_len, const KSI_PKISignature *signature, KSI_CertConstraint *certConstraints) {
	VERIF_pki_last.count++;
	VERIF_pki_last.pki = pki;
	VERIF_pki_last.data = data; VERIF_pki_last.data_len = data_len;
	VERIF_pki_last.signature = signature;
	VERIF_pki_last.certConstraints = certConstraints;
	VERIF_pki_last.verdict = ND(int, pki_verdict);
	return VERIF_pki_last.verdict;
}
int KSI_PKITruststore_verifyRawSignature(KSI_CTX *ctx, const unsigned char *data, size_t data_len, const char *algoOid, const unsigned char *signature, size_t signature_len, const KSI_PKICertificate *cert) {
	(void)ctx; (void)data; (void)data_len; (void)algoOid; (void)signature; (void)signature_len; (void)cert;
	return ND(int, pki_raw_verdict);
}
