/* C17 shared reference models, written from RFC 4648 (base32), the KSI publication string format
 * (8-byte big-endian time || imprint || CRC-32 of both, big-endian; base32, dash-separated groups) and the
 * CRC-32 definition (reflected polynomial 0xEDB88320, initial value and final xor 0xFFFFFFFF) - not from
 * base32.c / crc32.c / publicationsfile.c. */
#ifndef C17_REF_H_
#define C17_REF_H_

/* RFC 4648 base32 alphabet: value of a character, -1 = not in the alphabet.  Lower case is accepted as
 * upper case (KSI publication strings are case-insensitive). */
static int c17_sym_value(unsigned char c) {
	if (c >= 'A' && c <= 'Z') return c - 'A';
	if (c >= 'a' && c <= 'z') return c - 'a';
	if (c >= '2' && c <= '7') return 26 + (c - '2');
	return -1;
}
static char c17_sym_char(unsigned v) { return (char)(v < 26 ? 'A' + v : '2' + (v - 26)); }

/* bit k (0 = first = most significant) of a stream of 5-bit symbols */
static unsigned c17_stream_bit(const u8 *sym, unsigned k) { return (sym[k / 5] >> (4 - k % 5)) & 1u; }

/* byte i of the stream of nsym symbols (only defined for 8*i+7 < 5*nsym) */
static u8 c17_stream_byte(const u8 *sym, unsigned i) {
	unsigned b = 0;
	for (unsigned k = 0; k < 8; k++) b = (b << 1) | c17_stream_bit(sym, 8 * i + k);
	return (u8)b;
}

/* 5-bit symbol j of a byte string of n bytes, zero padded at the end */
static u8 c17_data_symbol(const u8 *d, unsigned n, unsigned j) {
	unsigned v = 0;
	for (unsigned k = 0; k < 5; k++) {
		unsigned g = 5 * j + k;
		unsigned bit = (g / 8 < n) ? ((d[g / 8] >> (7 - g % 8)) & 1u) : 0u;
		v = (v << 1) | bit;
	}
	return (u8)v;
}

/* CRC-32 (IEEE 802.3, reflected): bit by bit */
static unsigned c17_crc_step_bitwise(unsigned r, u8 b) {
	unsigned x = r ^ b;
	for (int k = 0; k < 8; k++) x = (x & 1u) ? ((x >> 1) ^ 0xEDB88320u) : (x >> 1);
	return x;
}
static unsigned c17_crc32(const u8 *d, unsigned n, unsigned nmax) {
	unsigned r = 0xFFFFFFFFu;
	for (unsigned i = 0; i < nmax; i++) if (i < n) r = c17_crc_step_bitwise(r, d[i]);
	return r ^ 0xFFFFFFFFu;
}
#endif
