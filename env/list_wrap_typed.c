/* list_wrap.c with a TYPED element array (new file; use it INSTEAD of "list_wrap" in plan.json "env").
 * list.c allocates its element array with KSI_calloc(n, sizeof(struct listEl_st)); through the KSI_calloc wrapper
 * CBMC sees calloc(240) = an untyped byte array, and a list whose LENGTH is symbolic (conditional appends) then
 * costs millions of SAT variables per append (byte-wise updates at symbolic offsets).  Here KSI_calloc is, for
 * the text of list.c only, expanded in place to malloc(n * sizeof(T)) + zero fill, which lets CBMC type the
 * array as struct listEl_st[n].  Semantically this is the body of env/ctx.c KSI_calloc (= calloc) without the
 * fault-injection gate (do not use this file in C19 harnesses). */
#include <stdlib.h>
#include <string.h>
#include "internal.h"
static void *VERIF_list_zero(void *p, size_t len) { if (p != NULL) memset(p, 0, len); return p; }
#define KSI_calloc(n, sz) VERIF_list_zero(malloc((n) * (sz)), (n) * (sz))
#include "list_wrap.c"
