/* Transport / clock model (DESIGN 3.5): poll, recv, send, close, socket, connect, getaddrinfo, freeaddrinfo,
 * gai_strerror, setsockopt, ioctl, strerror, time, difftime - replacing the C library for the TCP clients.
 *
 * One connection is modelled.  The peer's byte stream is VERIF_sk_stream[0..VERIF_sk_stream_len) (filled by
 * the harness, normally with symbolic bytes); recv() hands it out in order, send() appends what it accepts
 * to VERIF_sk_out[].  How the stream is cut into chunks and where faults occur is given
 *   - SK_MODE_SCRIPT: by the harness, as a list of outcomes with CONCRETE kinds and sizes (one per call), so
 *     that all lengths stay compile-time constants for the symbolic executor ("concrete shape, symbolic values");
 *     a call beyond the end of the script is counted in VERIF_sk_*_overrun and answered with would-block;
 *   - SK_MODE_ND: by nondeterministic choice inside the POSIX contract on every call (for small buffers).
 * POSIX contract kept in both modes: recv returns -1 (errno set), 0 (peer closed) or 1..len and writes exactly
 * that many bytes; send returns -1 or 1..len (0 only for len == 0) and reads exactly that many bytes.  errno
 * VALUES are symbolic inside their class.  The model checks what it can about the caller: the offered buffer
 * must be entirely valid (CBMC: __CPROVER_w_ok / r_ok; native replay: every offered byte is touched so that
 * ASan sees it) and the descriptor must be the open one (VERIF_sk_misuse).
 * time() is non-decreasing: every call advances the clock by a symbolic step >= 0 (SK_MODE_ND, default) or by the
 * harness-given constant VERIF_sk_time_step (SK_MODE_SCRIPT); difftime(a,b) = (double)(a-b). */
#include <sys/types.h>
#include <sys/socket.h>
#include <sys/ioctl.h>
#include <netinet/in.h>
#include <netdb.h>
#include <poll.h>
#include <errno.h>
#include <unistd.h>
#include <stdarg.h>
#include <string.h>
#include <time.h>
#include "sock_model.h"

int VERIF_sk_fd = 5;
int VERIF_sk_open;
unsigned VERIF_sk_sockets, VERIF_sk_closes, VERIF_sk_misuse;
int VERIF_sk_gai_ret, VERIF_sk_socket_fail, VERIF_sk_connect_ret, VERIF_sk_connect_errno, VERIF_sk_ioctl_ret, VERIF_sk_close_ret;
int VERIF_sk_poll_ret = 1;
short VERIF_sk_poll_revents;
unsigned VERIF_sk_polls;

int VERIF_sk_rx_mode;
struct sk_step VERIF_sk_rx[SK_SCRIPT_MAX];
unsigned VERIF_sk_rx_steps, VERIF_sk_rx_calls, VERIF_sk_rx_overrun;
u8 VERIF_sk_stream[SK_STREAM_MAX];
size_t VERIF_sk_stream_len, VERIF_sk_rx_pos;
void *VERIF_sk_rx_req_buf[SK_SCRIPT_MAX];
size_t VERIF_sk_rx_req_len[SK_SCRIPT_MAX];
size_t VERIF_sk_rx_req_max;
int VERIF_sk_rx_last_errno;
static unsigned sk_rx_eintr;

int VERIF_sk_tx_mode;
struct sk_step VERIF_sk_tx[SK_SCRIPT_MAX];
unsigned VERIF_sk_tx_steps, VERIF_sk_tx_calls, VERIF_sk_tx_overrun;
u8 VERIF_sk_out[SK_OUT_MAX];
size_t VERIF_sk_out_len;
unsigned VERIF_sk_out_overflow;
const void *VERIF_sk_tx_req_buf[SK_SCRIPT_MAX];
size_t VERIF_sk_tx_req_len[SK_SCRIPT_MAX];
static unsigned sk_tx_eintr;

time_t VERIF_sk_now;
unsigned VERIF_sk_time_calls;
int VERIF_sk_time_mode = SK_MODE_ND;
long VERIF_sk_time_step;

void VERIF_sk_reset(void) {
	VERIF_sk_fd = 5; VERIF_sk_open = 0; VERIF_sk_sockets = VERIF_sk_closes = VERIF_sk_misuse = 0;
	VERIF_sk_gai_ret = 0; VERIF_sk_socket_fail = 0; VERIF_sk_connect_ret = 0; VERIF_sk_connect_errno = 0; VERIF_sk_ioctl_ret = 0; VERIF_sk_close_ret = 0;
	VERIF_sk_poll_ret = 1; VERIF_sk_poll_revents = 0; VERIF_sk_polls = 0;
	VERIF_sk_rx_mode = SK_MODE_SCRIPT; VERIF_sk_rx_steps = VERIF_sk_rx_calls = VERIF_sk_rx_overrun = 0;
	VERIF_sk_stream_len = 0; VERIF_sk_rx_pos = 0; VERIF_sk_rx_req_max = 0; VERIF_sk_rx_last_errno = 0; sk_rx_eintr = 0;
	VERIF_sk_tx_mode = SK_MODE_SCRIPT; VERIF_sk_tx_steps = VERIF_sk_tx_calls = VERIF_sk_tx_overrun = 0;
	VERIF_sk_out_len = 0; VERIF_sk_out_overflow = 0; sk_tx_eintr = 0;
	VERIF_sk_now = 0; VERIF_sk_time_calls = 0; VERIF_sk_time_mode = SK_MODE_ND; VERIF_sk_time_step = 0;
}

static int sk_fd_ok(int fd) {
	if (VERIF_sk_open && fd == VERIF_sk_fd) return 1;
	VERIF_sk_misuse++;
	return 0;
}

static int sk_hard_errno(void) {
	int e = ND(int, sk_errno);
	ASSUME(e > 0 && e < 4096 && e != EAGAIN && e != EWOULDBLOCK && e != EINTR);
	return e;
}

/* nondeterministic outcome of one transfer call offering len bytes; avail = bytes that can still move */
static struct sk_step sk_nd_step(size_t len, size_t avail, unsigned *eintr, int is_recv) {
	struct sk_step s;
	int k = ND(int, sk_kind);
	int n = ND(int, sk_n);
	ASSUME(k >= SK_DATA && k <= SK_EINTR);
	if (!is_recv) ASSUME(k != SK_EOF);
	if (k == SK_EINTR) { ASSUME(*eintr < SK_EINTR_MAX); (*eintr)++; }
	if (k == SK_DATA) ASSUME(n >= 1 && (size_t)n <= len && (size_t)n <= avail && n <= SK_CHUNK_MAX);
	else n = 0;
	s.kind = k; s.n = n;
	return s;
}

static ssize_t sk_fail(int kind, int *last_errno) {
	int e;
	if (kind == SK_WOULDBLOCK) e = EAGAIN;
	else if (kind == SK_EINTR) e = EINTR;
	else e = sk_hard_errno();
	errno = e;
	if (last_errno != NULL) *last_errno = e;
	return -1;
}

ssize_t recv(int fd, void *buf, size_t len, int flags) {
	struct sk_step s;
	size_t m, avail, i;
	unsigned k = VERIF_sk_rx_calls;
	(void)flags;
	if (!sk_fd_ok(fd)) { errno = EBADF; return -1; }
	if (VERIF_sk_rx_calls < 1000000u) VERIF_sk_rx_calls++;
	if (len > VERIF_sk_rx_req_max) VERIF_sk_rx_req_max = len;
#ifndef REPLAY
	__CPROVER_assert(__CPROVER_w_ok(buf, len), "CHECK ENV.sock recv is offered a buffer that is writable for the whole offered length");
#else
	for (i = 0; i < len; i++) { volatile u8 *p = (volatile u8 *)buf + i; *p = *p; }
#endif
	if (len == 0) return 0;
	avail = VERIF_sk_stream_len - VERIF_sk_rx_pos;
	if (VERIF_sk_rx_mode == SK_MODE_ND) {
		s = sk_nd_step(len, avail, &sk_rx_eintr, 1);
	} else {
		if (k < SK_SCRIPT_MAX) { VERIF_sk_rx_req_buf[k] = buf; VERIF_sk_rx_req_len[k] = len; }
		if (k < VERIF_sk_rx_steps && k < SK_SCRIPT_MAX) s = VERIF_sk_rx[k];
		else { VERIF_sk_rx_overrun++; s.kind = SK_WOULDBLOCK; s.n = 0; }
	}
	if (s.kind == SK_EOF) return 0;
	if (s.kind != SK_DATA) return sk_fail(s.kind, &VERIF_sk_rx_last_errno);
	m = (size_t)s.n;
	if (m > len) m = len;          /* never more than offered: the rest stays in the stream */
	if (m > avail) m = avail;
	if (m == 0) return sk_fail(SK_WOULDBLOCK, &VERIF_sk_rx_last_errno);   /* script ran past the stream: nothing to deliver yet */
	for (i = 0; i < SK_CHUNK_MAX; i++) {
		if (i < m) ((u8 *)buf)[i] = VERIF_sk_stream[VERIF_sk_rx_pos + i];
	}
	VERIF_sk_rx_pos += m;
	return (ssize_t)m;
}

ssize_t send(int fd, const void *buf, size_t len, int flags) {
	struct sk_step s;
	size_t m, i;
	unsigned k = VERIF_sk_tx_calls;
	(void)flags;
	if (!sk_fd_ok(fd)) { errno = EBADF; return -1; }
	if (VERIF_sk_tx_calls < 1000000u) VERIF_sk_tx_calls++;
#ifndef REPLAY
	__CPROVER_assert(__CPROVER_r_ok(buf, len), "CHECK ENV.sock send is offered a buffer that is readable for the whole offered length");
#else
	{ volatile u8 sink = 0; for (i = 0; i < len; i++) sink ^= ((const volatile u8 *)buf)[i]; (void)sink; }
#endif
	if (len == 0) return 0;
	if (VERIF_sk_tx_mode == SK_MODE_ND) {
		s = sk_nd_step(len, SK_OUT_MAX - VERIF_sk_out_len, &sk_tx_eintr, 0);
	} else {
		if (k < SK_SCRIPT_MAX) { VERIF_sk_tx_req_buf[k] = buf; VERIF_sk_tx_req_len[k] = len; }
		if (k < VERIF_sk_tx_steps && k < SK_SCRIPT_MAX) s = VERIF_sk_tx[k];
		else { VERIF_sk_tx_overrun++; s.kind = SK_WOULDBLOCK; s.n = 0; }
	}
	if (s.kind != SK_DATA) return sk_fail(s.kind == SK_EOF ? SK_HARDERR : s.kind, NULL);
	m = (size_t)s.n;
	if (m > len) m = len;
	if (m == 0) return sk_fail(SK_WOULDBLOCK, NULL);
	for (i = 0; i < SK_CHUNK_MAX; i++) {
		if (i < m) {
			if (VERIF_sk_out_len + i < SK_OUT_MAX) VERIF_sk_out[VERIF_sk_out_len + i] = ((const u8 *)buf)[i];
			else VERIF_sk_out_overflow++;
		}
	}
	VERIF_sk_out_len += m;
	return (ssize_t)m;
}

int poll(struct pollfd *fds, nfds_t nfds, int timeout) {
	(void)timeout;
	if (VERIF_sk_polls < 1000000u) VERIF_sk_polls++;
	if (nfds != 1 || fds == NULL) { VERIF_sk_misuse++; errno = EINVAL; return -1; }
	if (!sk_fd_ok(fds[0].fd)) { fds[0].revents = POLLNVAL; return 1; }
	if (VERIF_sk_poll_ret < 0) { errno = sk_hard_errno(); return -1; }
	if (VERIF_sk_poll_ret == 0) { fds[0].revents = 0; return 0; }
	fds[0].revents = VERIF_sk_poll_revents;
	return 1;
}

int close(int fd) {
	if (!sk_fd_ok(fd)) { errno = EBADF; return -1; }
	VERIF_sk_open = 0;
	VERIF_sk_closes++;
	if (VERIF_sk_close_ret != 0) { errno = sk_hard_errno(); return -1; }
	return 0;
}

int socket(int domain, int type, int protocol) {
	(void)domain; (void)type; (void)protocol;
	if (VERIF_sk_socket_fail) { errno = sk_hard_errno(); return -1; }
	if (VERIF_sk_open) VERIF_sk_misuse++;      /* the model has one connection: a second socket while the first is open is a leak */
	VERIF_sk_open = 1;
	VERIF_sk_sockets++;
	return VERIF_sk_fd;
}

int connect(int fd, __CONST_SOCKADDR_ARG addr, socklen_t len) {
	(void)addr; (void)len;
	if (!sk_fd_ok(fd)) { errno = EBADF; return -1; }
	if (VERIF_sk_connect_ret != 0) { errno = VERIF_sk_connect_errno; return -1; }
	return 0;
}

int setsockopt(int fd, int level, int optname, const void *optval, socklen_t optlen) {
	(void)level; (void)optname; (void)optval; (void)optlen;
	if (!sk_fd_ok(fd)) { errno = EBADF; return -1; }
	return 0;
}

int ioctl(int fd, unsigned long request, ...) {
	(void)request;
	if (!sk_fd_ok(fd)) { errno = EBADF; return -1; }
	if (VERIF_sk_ioctl_ret != 0) { errno = sk_hard_errno(); return -1; }
	return 0;
}

static struct sockaddr_in sk_addr;
static struct addrinfo sk_ai;
static unsigned sk_ai_live;
unsigned VERIF_sk_ai_leaks(void) { return sk_ai_live; }

int getaddrinfo(const char *node, const char *service, const struct addrinfo *hints, struct addrinfo **res) {
	(void)node; (void)service; (void)hints;
	if (VERIF_sk_gai_ret != 0) return VERIF_sk_gai_ret;
	memset(&sk_ai, 0, sizeof(sk_ai));
	sk_ai.ai_family = AF_INET; sk_ai.ai_socktype = SOCK_STREAM; sk_ai.ai_protocol = IPPROTO_TCP;
	sk_ai.ai_addrlen = sizeof(sk_addr); sk_ai.ai_addr = (struct sockaddr *)&sk_addr; sk_ai.ai_next = NULL;
	*res = &sk_ai;
	sk_ai_live++;
	return 0;
}
void freeaddrinfo(struct addrinfo *ai) { if (ai == &sk_ai && sk_ai_live > 0) sk_ai_live--; else VERIF_sk_misuse++; }
const char *gai_strerror(int e) { (void)e; return "gai"; }
char *strerror(int e) { static char msg[4] = "err"; (void)e; return msg; }

time_t time(time_t *t) {
	long d;
	if (VERIF_sk_time_mode == SK_MODE_ND) {
		d = ND(long, sk_time_step);
		ASSUME(d >= 0 && d <= (1L << 32));
	} else d = VERIF_sk_time_step;      /* concrete clock: decisions that depend on time stay concrete */
	if (VERIF_sk_time_calls < 1000000u) VERIF_sk_time_calls++;
	VERIF_sk_now += d;
	if (t != NULL) *t = VERIF_sk_now;
	return VERIF_sk_now;
}
double difftime(time_t a, time_t b) { return (double)(a - b); }
