#!/usr/bin/env python3
"""mutation runner for the C01 rule harnesses:  engine/mkscratch.sh /tmp/c01mut && python3 harness/C01/mutations.py C01 [ids...]
(applies each textual mutation to the scratch worktree /tmp/c01mut, runs the named instances with VERIF_REPO set, prints CAUGHT / MISSED;
results of the recorded runs are in MUTATIONS.md; remove the worktree afterwards: git -C /repo worktree remove --force /tmp/c01mut)"""
import subprocess, sys, re, json, os
WT = "/tmp/c01mut"
V = "src/ksi/verification_rule.c"; H = "src/ksi/hashchain.c"; P = "src/ksi/policy.c"; HS = "src/ksi/hash.c"; S = "src/ksi/signature.c"
MUTS = {
"C01": [
 ("X1", P, "IndexConsistency removed from internalRules (end-to-end harness)", "\t{KSI_RULE_TYPE_BASIC, KSI_VerificationRule_AggregationHashChainIndexConsistency},\n", "", "hc_e2e"),
 ("X2", V, "consistency rule does not hand its root over in tempData", "\ttempData->aggregationOutputHash = hsh;\n\thsh = NULL;", "\t;", "hc_e2e,ha_consistency.n2_l11_cal"),
 ("X3", V, "time consistency rule writes its verdict but returns an error status on success", "\tVERIFICATION_RESULT_OK(step);\n\tres = KSI_OK;\n\ncleanup:\n\n\treturn res;\n}\n\nint KSI_VerificationRule_AggregationHashChainIndexContinuation", "\tVERIFICATION_RESULT_OK(step);\n\tres = KSI_UNKNOWN_ERROR;\n\ncleanup:\n\n\treturn res;\n}\n\nint KSI_VerificationRule_AggregationHashChainIndexContinuation", "hc_e2e,ha_chains.n1_l2"),
 ("C1", V, "consistency rule: input hash of the next chain not compared", "if (!KSI_DataHash_equals(hsh, aggregationChain->inputHash)) {\n\t\t\t\tKSI_LOG_logDataHash(ctx, KSI_LOG_DEBUG, \"Calculated hash :\", hsh);", "if (0) {\n\t\t\t\tKSI_LOG_logDataHash(ctx, KSI_LOG_DEBUG, \"Calculated hash :\", hsh);", "ha_consistency.n2_l11_cal,ha_consistency.n3_l111"),
 ("C2", V, "consistency rule: every chain aggregated from level 0", "res = KSI_AggregationHashChain_aggregate(aggregationChain, level, &level, &tmpHash);\n\t\tif (res != KSI_OK) {\n\t\t\tVERIFICATION_RESULT_ERR(KSI_VER_RES_NA, KSI_VER_ERR_GEN_2, KSI_VERIFY_NONE);", "res = KSI_AggregationHashChain_aggregate(aggregationChain, 0, &level, &tmpHash);\n\t\tif (res != KSI_OK) {\n\t\t\tVERIFICATION_RESULT_ERR(KSI_VER_RES_NA, KSI_VER_ERR_GEN_2, KSI_VERIFY_NONE);", "ha_consistency.n2_l11_cal,ha_consistency.n3_l111"),
 ("C3", V, "consistency rule starts at docAggrLevel instead of 0", "\tint level = 0;\n\tsize_t i;\n\tKSI_CTX *ctx = NULL;\n\tconst KSI_Signature *sig = NULL;\n\tVerificationTempData *tempData = NULL;", "\tint level = 0;\n\tsize_t i;\n\tKSI_CTX *ctx = NULL;\n\tconst KSI_Signature *sig = NULL;\n\tVerificationTempData *tempData = NULL;\n\tif (info != NULL && info->docAggrLevel <= 0xff) level = (int)info->docAggrLevel;", "ha_consistency.n1_l1,ha_consistency.n2_l11_cal"),
 ("C4", V, "calendar input rule: comparison with the aggregation root removed", "FIRST:if (!KSI_DataHash_equals(tempData->aggregationOutputHash, calInputHash)) {\n\t\tKSI_LOG_info(ctx, \"Calendar hash chain's input hash does not match with aggregation root hash.\");", "if (0) {\n\t\tKSI_LOG_info(ctx, \"Calendar hash chain's input hash does not match with aggregation root hash.\");", "ha_consistency.n2_l11_cal"),
 ("C5", H, "aggregation: level byte not advanced by the correction", "level += (int)levelCorrection + 1;", "level += 1;", "ha_consistency.n1_l1,ha_consistency.n1_l2_legacy_lcnull"),
 ("C6", H, "aggregation: left/right swapped for right links", "\t\t} else {\n\t\t\tres = dataHasher_addLinkImprint(ctx, hsr, link);\n\t\t\tif (res != KSI_OK) {\n\t\t\t\tKSI_pushError(ctx, res, NULL);\n\t\t\t\tgoto cleanup;\n\t\t\t}\n\n\t\t\tres = dataHasher_addNvlImprint(hsr, hsh, inputHash);", "\t\t} else {\n\t\t\tres = dataHasher_addNvlImprint(hsr, hsh, inputHash);\n\t\t\tif (res != KSI_OK) {\n\t\t\t\tKSI_pushError(ctx, res, NULL);\n\t\t\t\tgoto cleanup;\n\t\t\t}\n\n\t\t\tres = dataHasher_addLinkImprint(ctx, hsr, link);", "ha_consistency.n1_l1,ha_calroot.l1_R_auth"),
 ("C7", H, "chain memo ignores the start level (cached output reused)", "if (aggr->outputHash == NULL || startLevel != aggr->inputLevel) {", "if (aggr->outputHash == NULL) {", "ha_consistency.n2_l11_cal"),
 ("K1", H, "registration time: left link leaves r unchanged minus one", "r = highBit(r) - 1;", "r = highBit(r);", "ha_calendar.l2_noaggr_auth,ha_calendar.l3"),
 ("K2", H, "registration time: final r != 0 test dropped", "\tif (r != 0) {\n\t\tres = KSI_INVALID_FORMAT;\n\t\tgoto cleanup;\n\t}\n\n\t*utc_time = (time_t) t;", "\t*utc_time = (time_t) t;", "ha_calendar.l1_pub,ha_calendar.l3"),
 ("K3", V, "calendar aggregation time rule compares with the publication time always", "res = KSI_CalendarHashChain_getAggregationTime(sig->calendarChain, &calTime);\n\tif (res != KSI_OK) {\n\t\tVERIFICATION_RESULT_ERR(KSI_VER_RES_NA, KSI_VER_ERR_GEN_2, KSI_VERIFY_NONE);\n\t\tKSI_pushError(ctx, res, NULL);\n\t\tgoto cleanup;\n\t}\n\n\tif (calTime == NULL) {\n\t\tKSI_LOG_debug(ctx, \"Aggregation time missing in calendar hash chain, default to publication time.\");\n\n\t\tres = KSI_CalendarHashChain_getPublicationTime(sig->calendarChain, &calTime);\n\t\tif (res != KSI_OK) {\n\t\t\tVERIFICATION_RESULT_ERR(KSI_VER_RES_NA, KSI_VER_ERR_GEN_2, KSI_VERIFY_NONE);\n\t\t\tKSI_pushError(ctx, res, NULL);\n\t\t\tgoto cleanup;\n\t\t}\n\t}\n\n\tif (!KSI_Integer_equals(calTime, aggregationChain->aggregationTime)) {", "res = KSI_CalendarHashChain_getPublicationTime(sig->calendarChain, &calTime);\n\tif (res != KSI_OK) {\n\t\tVERIFICATION_RESULT_ERR(KSI_VER_RES_NA, KSI_VER_ERR_GEN_2, KSI_VERIFY_NONE);\n\t\tKSI_pushError(ctx, res, NULL);\n\t\tgoto cleanup;\n\t}\n\n\tif (!KSI_Integer_equals(calTime, aggregationChain->aggregationTime)) {", "ha_calendar.l1_pub,ha_calendar.l3"),
 ("K4", V, "obsolescence rule uses the deprecation test", "res = calendarChainAggrAlgorithmState(ctx, sig->calendarChain, wasObsoleteAt, &isTrue);", "res = calendarChainAggrAlgorithmState(ctx, sig->calendarChain, wasDeprecatedAt, &isTrue);", "ha_calendar.l1_pub,ha_calendar.l3"),
 ("K5", V, "publication time rule compares with the calendar aggregation time", "res = KSI_CalendarHashChain_getPublicationTime(sig->calendarChain, &calPubTime);\n\tif (res != KSI_OK) {\n\t\tVERIFICATION_RESULT_ERR(KSI_VER_RES_NA, KSI_VER_ERR_GEN_2, KSI_VERIFY_NONE);\n\t\tKSI_pushError(ctx, res, NULL);\n\t\tgoto cleanup;\n\t}\n\t/* Get publication data from publication record. */", "res = KSI_CalendarHashChain_getAggregationTime(sig->calendarChain, &calPubTime);\n\tif (res != KSI_OK) {\n\t\tVERIFICATION_RESULT_ERR(KSI_VER_RES_NA, KSI_VER_ERR_GEN_2, KSI_VERIFY_NONE);\n\t\tKSI_pushError(ctx, res, NULL);\n\t\tgoto cleanup;\n\t}\n\t/* Get publication data from publication record. */", "ha_calendar.l1_pub"),
 ("R1", H, "calendar: algorithm not switched on left links", "\t\t\t\tif (tmp != algo_id) {\n\t\t\t\t\talgo_id = tmp;", "\t\t\t\tif (0) {\n\t\t\t\t\talgo_id = tmp;", "ha_calroot.l1_L_pub,ha_calroot.l2_RL_pub"),
 ("R2", V, "publication hash rule: mismatch reported as auth-record code", "VERIFICATION_RESULT_ERR(KSI_VER_RES_FAIL, KSI_VER_ERR_INT_9, step);", "VERIFICATION_RESULT_ERR(KSI_VER_RES_FAIL, KSI_VER_ERR_INT_8, step);", "ha_calroot.l1_L_pub"),
 ("R3", H, "calendar aggregation uses level byte 0", "return aggregateChain(ctx, chain, inputHash, 0xff, -1, 1, NULL, outputHash);", "return aggregateChain(ctx, chain, inputHash, 0, -1, 1, NULL, outputHash);", "ha_calroot.l1_L_pub"),
 ("F1", V, "RFC3161: TSTInfo hash input uses the whole imprint (algorithm byte included)", "res = KSI_DataHasher_add(hsr, imprint + 1, imprint_len - 1);", "res = KSI_DataHasher_add(hsr, imprint, imprint_len);", "ha_rfc.hash_sha1_sha256_out1"),
 ("F2", V, "RFC3161: suffix not hashed", "\tres = KSI_OctetString_extract(suffix, &data, &data_len);\n\tif (res != KSI_OK) {\n\t\tKSI_pushError(ctx, res, NULL);\n\t\tgoto cleanup;\n\t}\n\n\tif (data != NULL) {", "\tres = KSI_OctetString_extract(suffix, &data, &data_len);\n\tif (res != KSI_OK) {\n\t\tKSI_pushError(ctx, res, NULL);\n\t\tgoto cleanup;\n\t}\n\n\tif (0) {", "ha_rfc.hash_sha1_sha256_out1,ha_rfc.hash_256_ripemd_out0_pre0"),
 ("F3", V, "RFC3161 lifetime rule: TSTInfo algorithm not checked", "\talgorithm = NULL;\n\tres = KSI_RFC3161_getTstInfoAlgo(sig->rfc3161, &algorithm);", "\tVERIFICATION_RESULT_OK(step);\n\tres = KSI_OK;\n\tgoto cleanup;\n\talgorithm = NULL;\n\tres = KSI_RFC3161_getTstInfoAlgo(sig->rfc3161, &algorithm);", "ha_rfc.lifetime"),
 ("F4", V, "RFC3161 output algorithm rule reports INT-14", "VERIFICATION_RESULT_ERR(KSI_VER_RES_FAIL, KSI_VER_ERR_INT_17, step);", "VERIFICATION_RESULT_ERR(KSI_VER_RES_FAIL, KSI_VER_ERR_INT_14, step);", "ha_rfc.lifetime"),
 ("F5", V, "RFC3161 input rule: > 0xff test on algorithms removed", "if (KSI_Integer_getUInt64(rfc3161->tstInfoAlgo) > 0xff || KSI_Integer_getUInt64(rfc3161->sigAttrAlgo) > 0xff) {", "if (0) {", "ha_rfc.hash_wide_tst"),
 ("M1", V, "metadata: parity of the record length not checked", "if (metaData->impl->ftlv.dat_len % 2) {", "if (0) {", "ha_meta.pad2_cid3_odd,ha_meta.pad2_cid2"),
 ("M2", V, "metadata: padding flags not checked", "if (el->ftlv.is_nc == 0 || el->ftlv.is_fwd == 0) {", "if (el->ftlv.is_nc == 0 && el->ftlv.is_fwd == 0) {", "ha_meta.pad2_cid2,ha_meta.pad1_cid3"),
 ("M3", V, "metadata: imprint test off by one", "if (len != 0 && len + 1 == metaData->impl->ftlv.dat_len) {", "if (len != 0 && len == metaData->impl->ftlv.dat_len) {", "ha_meta.single_cid31,ha_meta.single_t0_19"),
 ("M4", V, "metadata: second padding byte not checked", "\t\t\tif (el->ptr[el->ftlv.hdr_len + 1] != 0x01) {", "\t\t\tif (0) {", "ha_meta.pad2_cid2"),
 ("M5", V, "metadata: TLV16 padding accepted", "if (el->ptr[0] & KSI_TLV_MASK_TLV16) {", "if (0) {", "ha_meta.pad16_cid2"),
 ("M6", V, "metadata: duplicate padding treated as inconclusive instead of FAIL", "\t\t\t\t\tif (res == KSI_INVALID_STATE) {\n\t\t\t\t\t\tVERIFICATION_RESULT_ERR(KSI_VER_RES_FAIL, KSI_VER_ERR_INT_11, step);\n\t\t\t\t\t\tres = KSI_OK;", "\t\t\t\t\tif (0) {\n\t\t\t\t\t\tVERIFICATION_RESULT_ERR(KSI_VER_RES_FAIL, KSI_VER_ERR_INT_11, step);\n\t\t\t\t\t\tres = KSI_OK;", "ha_meta.pad2_pad2"),
 ("E1", V, "existence probe inverted (CalendarHashChainExistence)", "FIRST:\tKSI_LOG_info(info->ctx, \"Verifying calendar hash chain existence.\");\n\n\tif (info->signature->calendarChain == NULL) {", "\tKSI_LOG_info(info->ctx, \"Verifying calendar hash chain existence.\");\n\n\tif (info->signature->calendarChain != NULL) {", "ha_chains.n1_l2,ha_chains.n1_l3_idx3_cal"),
 ("E2", V, "SignatureDoesNotContainPublication returns NA with GEN-2 instead of no code", "\t\tKSI_LOG_info(info->ctx, \"Signature contains publication record.\");\n\t\tVERIFICATION_RESULT_ERR(KSI_VER_RES_NA, KSI_VER_ERR_NONE, KSI_VERIFY_NONE);", "\t\tKSI_LOG_info(info->ctx, \"Signature contains publication record.\");\n\t\tVERIFICATION_RESULT_ERR(KSI_VER_RES_NA, KSI_VER_ERR_GEN_2, KSI_VERIFY_NONE);", "ha_chains.n1_l3_idx3_cal"),
 ],
}
def sh(c, **k): return subprocess.run(c, shell=True, capture_output=True, text=True, **k)
def main():
    prop = sys.argv[1]; ids = sys.argv[2:]
    rf = "/tmp/c01-mut-results_%s.json" % prop
    res = json.load(open(rf)) if os.path.exists(rf) else {}
    for (mid, f, what, old, new, only) in MUTS[prop]:
        if ids and mid not in ids: continue
        sh("git -C %s checkout -q -- src/ksi" % WT)
        p = os.path.join(WT, f); s = open(p).read()
        first = old.startswith("FIRST:")
        if first: old = old[6:]
        if s.count(old) != 1 and not (first and s.count(old) > 1):
            print(mid, "PATTERN COUNT", s.count(old), flush=True); continue
        open(p, "w").write(s.replace(old, new, 1))
        r = sh("cd /verif && VERIF_REPO=%s python3 engine/ksicheck.py %s --only %s --jobs 4 2>&1" % (WT, prop, only))
        out = r.stdout
        viol = sorted(set(re.findall(r"check=(CHECK [^(]*?) \(", out)))
        stat = re.findall(r"^\[%s\] (\S+)\s+(\S+)" % prop, out, re.M)
        bad = [(a, b) for a, b in stat if b != "ok"]
        nviol = out.count("VIOLATION property")
        res[mid] = {"file": f, "what": what, "only": only, "violations": nviol, "checks": viol, "nonok": bad}
        print(mid, what, "->", "CAUGHT" if nviol else ("BROKEN" if bad else "MISSED"), nviol, viol[:3], bad[:3], flush=True)
        json.dump(res, open(rf, "w"), indent=1)
    sh("git -C %s checkout -q -- src/ksi" % WT)
main()
