/* C08 H-3 (asynchronous variant): KSI_AsyncHandle_getSignature -> createExtendedSignature (net_async.c, real) for an
 * extending handle whose reply has already been bound to the request by handleResponse (KSI_ExtendResp_verifyWithRequest:
 * status, id, times, shape - C06 h5_async / C08 h1_extverify).  Callees outside net_async.c are stubs with symbolic
 * status (c07_gates.h).  From the property ("... a calendar chain ... whose right links agree with the signature's previous
 * calendar chain; the result carries the new calendar chain and the supplied publication record ...; in every other case an
 * error is returned"), for all callee outcomes:
 *   success => reply chain fetched, builder opened from the handle's SOURCE signature (clone), compatibility of the source's
 *     old calendar chain with the new one checked when the source has one, chain applied, closed unverified, [publication
 *     record cloned and attached], verified with the internal policy - each once, in this order, all OK; result = that object;
 *   any failure => error, *signature untouched, signature under construction released, publication clone released.
 *   handle without request / source signature / reply => KSI_INVALID_STATE. */
#include "verif.h"
#include "internal.h"
#include "net_async.h"
#include "signature_builder.h"
#include "impl/signature_builder_impl.h"
#include "impl/signature_impl.h"
#include "impl/hashchain_impl.h"
#include "impl/publicationsfile_impl.h"
#include "net.h"
#include "net_tcp.h"
#include "net_http.h"
#include "impl/net_async_impl.h"
#include "impl/net_uri_impl.h"
#include "impl/ctx_impl.h"
#include "policy.h"
#include "hashchain.h"
#include "ctx.h"
#include "verif_post.h"
#define C07_HAVE_PUBREC_FREE 1
#define C07_HAVE_CALCHAIN_FREE 1
#define C07_MODEL_SIG_FREE 1
#include "c07_gates.h"

#ifndef HAS_CAL
#define HAS_CAL 1
#endif
#ifndef HAS_PUB
#define HAS_PUB 0
#endif
#ifndef MISSING
#define MISSING 0    /* 1: no request, 2: no source signature, 3: no reply */
#endif

struct KSI_ExtendReq_st { int x; };
struct KSI_ExtendResp_st { int x; };
static KSI_ExtendReq m_req; static KSI_ExtendResp m_resp;
static KSI_CalendarHashChain m_newcal, src_cal; static KSI_Signature src;
static KSI_PublicationRecord pub_orig, pub_clone; static unsigned pub_clone_freed;
static KSI_Policy internal_policy_obj;
const KSI_Policy *KSI_VERIFICATION_POLICY_INTERNAL = &internal_policy_obj;

int KSI_ExtendResp_getCalendarHashChain(const KSI_ExtendResp *resp, KSI_CalendarHashChain **c) {
	int s = gate(G_GETCHAIN, resp == &m_resp);
	if (s != KSI_OK) return s;
	*c = &m_newcal; return KSI_OK;
}
int KSI_SignatureBuilder_openFromSignature(const KSI_Signature *sig, KSI_SignatureBuilder **builder) {
	int s = gate(G_OPEN, sig == &src);
	if (s != KSI_OK) return s;
	*builder = c07_open_builder(VERIF_ctx); return KSI_OK;
}
int KSI_CalendarHashChain_verifyCompatibilityTo(const KSI_CalendarHashChain *a, const KSI_CalendarHashChain *b) { return gate(G_COMPAT, a == &src_cal && b == &m_newcal); }
int KSI_SignatureBuilder_applyCalendarHashChain(KSI_SignatureBuilder *builder, KSI_CalendarHashChain *cal) { return gate(G_APPLY, builder == m_builder && builder != NULL && cal == &m_newcal); }
int KSI_PublicationRecord_clone(const KSI_PublicationRecord *rec, KSI_PublicationRecord **clone) {
	int s = gate(G_CLONEPUB, rec == &pub_orig);
	if (s != KSI_OK) return s;
	*clone = &pub_clone; return KSI_OK;
}
int KSI_Signature_replacePublicationRecord(KSI_Signature *sig, KSI_PublicationRecord *pubRec) {
	int s = gate(G_REPLPUB, sig == &m_sig_obj && m_sign == &m_sig_obj && pubRec == &pub_clone);
	if (s != KSI_OK) return s;
	sig->publication = pubRec; return KSI_OK;
}
void KSI_PublicationRecord_free(KSI_PublicationRecord *t) { if (t == &pub_clone) pub_clone_freed++; else __CPROVER_assert(t == NULL, "CHECK C08.H3a only the cloned publication record is ever released"); }
void KSI_AggregationReq_free(KSI_AggregationReq *t) { (void)t; }
void KSI_ExtendReq_free(KSI_ExtendReq *t) { (void)t; }

#include "net_async.c"

void harness(void) {
	VERIF_ctx_init();
	KSI_CTX *ctx = VERIF_ctx;
	int res;
	memset(&src, 0, sizeof(src)); src.ctx = ctx; src.ref = 1;
	memset(&src_cal, 0, sizeof(src_cal)); src_cal.ctx = ctx; src_cal.ref = 1;
	memset(&m_newcal, 0, sizeof(m_newcal)); m_newcal.ctx = ctx; m_newcal.ref = 1;
	src.calendarChain = HAS_CAL ? &src_cal : NULL;
	pub_orig.ctx = ctx; pub_orig.ref = 1; pub_clone = pub_orig;
	static KSI_AsyncHandle H;
	memset(&H, 0, sizeof(H));
	H.ctx = ctx; H.ref = 1; H.state = KSI_ASYNC_STATE_RESPONSE_RECEIVED;
	H.extReq = (MISSING == 1) ? NULL : &m_req;
	H.signature = (MISSING == 2) ? NULL : &src;
	H.respCtx = (MISSING == 3) ? NULL : &m_resp;
	H.pubRec = HAS_PUB ? &pub_orig : NULL;
	KSI_Signature *marker = (KSI_Signature *)&internal_policy_obj, *out = marker;

	res = KSI_AsyncHandle_getSignature(&H, &out);

#if MISSING
	CHECK(res == KSI_INVALID_STATE && out == marker && g_seq == 0, "C08.H3a a handle without request, source signature or reply yields KSI_INVALID_STATE and nothing is built");
	WITNESS_POINT("incomplete extending handle refused");
#else
	int G[12]; unsigned n = 0;
	G[n++] = G_GETCHAIN; G[n++] = G_OPEN;
#if HAS_CAL
	G[n++] = G_COMPAT;
#endif
	G[n++] = G_APPLY; G[n++] = G_CLOSE;
#if HAS_PUB
	G[n++] = G_CLONEPUB; G[n++] = G_REPLPUB;
#endif
	G[n++] = G_VERIFY;
	CHECK(src.calendarChain == (HAS_CAL ? &src_cal : NULL) && src.ref == 1 && src.publication == NULL, "C08.H3a the source signature object is unchanged");
	if (res == KSI_OK) {
		CHECK(gates_ok_in_order(G, n), "C08.H3a success only after chain fetched, clone opened, compatibility with the old chain checked, chain applied, closed, publication attached, verified - all OK, in order");
		CHECK(m_close_noverify == 1 && m_close_level == 0, "C08.H3a the builder is closed unverified with level 0");
		CHECK(m_verify_doc == NULL && m_verify_policy == &internal_policy_obj && m_verify_ctx == NULL, "C08.H3a the result is verified with the internal policy");
		CHECK(out == &m_sig_obj && SIG_ALIVE_AND_OWNED(), "C08.H3a the returned signature is the verified object and is alive");
#if HAS_PUB
		CHECK(m_sig_obj.publication == &pub_clone && pub_clone_freed == 0, "C08.H3a the result carries the cloned publication record");
#endif
		WITNESS_POINT("asynchronous extension succeeded");
	} else {
		CHECK(out == marker, "C08.H3a no signature is returned together with an error");
		CHECK(m_builder == NULL || SIG_RELEASED(), "C08.H3a a signature under construction is released on failure");
		if (g_calls[G_VERIFY] == 1 && g_status[G_VERIFY] != KSI_OK) WITNESS_POINT("async extend: final verification failed, nothing returned");
	}
	CHECK(nothing_after_failure(G, n), "C08.H3a no step is reached after an earlier one failed or was skipped");
#endif
}
