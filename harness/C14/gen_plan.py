#!/usr/bin/env python3
"""Generates /verif/harness/C14/plan.json (shape lists of the concrete-shape harnesses).  Run: python3 gen_plan.py"""
import json, os, itertools

HERE = os.path.dirname(os.path.abspath(__file__))
DATA, EOF, WB, HARD, EINTR = "SK_DATA", "SK_EOF", "SK_WOULDBLOCK", "SK_HARDERR", "SK_EINTR"
GROUP = 32          # shapes per cbmc run


def esize(e):
    return (4 if e[0] & 0x80 else 2) + e[1]


def flat(pairs):
    return "(" + ", ".join("%s,%s" % (a if isinstance(a, str) else ("0x%02x" % a if i == 0 else a), b) for i, (a, b) in [(0, p) for p in pairs]) + ")"


# ------------------------------------------------------------------------------------------------
# H-1 receive step
# ------------------------------------------------------------------------------------------------
def layouts(maxsz):
    m = maxsz
    big8 = (0x1f, m - 2)
    big16 = (0xe0, m - 4)
    L = {
        "A": [(0x02, 3), (0x81, 2), (0x03, 0), big8, (0x80, 0), (0x04, 1), (0x85, m - 7), (0x42, 3), (0x21, 0), (0x06, 4)],
        "B": [big8, (0x02, 0), big16, (0x01, 1), (0x80, 0), big8, (0x05, 2)],
        "C": [big16, (0x80, 0), big8, (0x03, 0), (0x9f, 1), big16, (0x07, 0)],
        "D": [(0x00, 0), (0x01, 0), (0x02, 1), (0x1f, 0), (0x80, 0), (0x03, 0), (0x04, 2), (0x05, 0), (0x06, 0), (0x87, 1), (0x08, 0), (0x09, 3), (0x0a, 0), (0x0b, 0), (0x0c, 1), (0x0d, 0)],
        "E": [(0x80, 0), (0x81, 1), (0x02, 0), (0xa3, m - 4), (0x04, 0), (0x85, 0), (0x06, m - 2), (0x07, 1)],
    }
    return L


def h1_shape(layout, l0, chunks, term, revents, q0):
    """chunks: list of sizes; term: WB/EOF/HARD/None (None = POLLIN not set, no recv expected)"""
    need = l0 + sum(chunks)
    els, tot = [], 0
    for e in layout:
        els.append(e)
        tot += esize(e)
        if tot > need:
            break
    if tot < need or tot > 64:
        return None
    steps = [(DATA, c) for c in chunks]
    if term is not None:
        steps.append((term, 0))
    return (l0, els, steps, revents, q0)


def h1_fmt(idx, sh):
    l0, els, steps, rev, q0 = sh
    el = "(" + ", ".join("0x%02x,%d" % e for e in els) + ")"
    st = "(" + ", ".join("%s,%d" % s for s in steps) + ")"
    return "S(%d, %d, %d, %s, %d, %s, (%s), %d)" % (idx, l0, len(els), el, len(steps), st, rev, q0)


def h1_shapes(maxsz, tier):
    L = layouts(maxsz)
    out = []
    revs = ["POLLIN", "POLLIN|POLLOUT"]
    k = 0

    def add(tag, *a):
        nonlocal k
        sh = h1_shape(*a[:4], revs[k % 2] if a[4] is None else a[4], a[5])
        k += 1
        if sh is not None:
            out.append((tag, sh))
    allc = list(range(1, maxsz + 1))
    some = sorted(set([1, 2, 3, 5, maxsz - 4, maxsz]))
    few = sorted(set([1, 2, 5, maxsz]))
    thor = tier == "thorough"
    for name, lay in L.items():
        s1 = esize(lay[0])
        l0s = list(range(0, s1))
        # no chunk: terminators only, and "no input signalled"
        if thor or name in ("A", "D", "E"):
            for l0 in l0s:
                for term in (WB, EOF, HARD):
                    add("t0" + name, lay, l0, [], term, None, 0)
                add("t0" + name, lay, l0, [], None, "POLLOUT", l0 % 2)
        # one chunk, every size, would-block
        if thor or name != "C":
            for l0 in (l0s if thor or name != "B" else sorted(set([0, 1, 2, s1 // 2, s1 - 2, s1 - 1]))):
                for c in allc:
                    add("c1" + name, lay, l0, [c], WB, None, 1 if (c == 3) else 0)
        # one chunk then close / error
        if thor or name == "A":
            for l0 in l0s:
                for c in some:
                    for term in (EOF, HARD):
                        add("x1" + name, lay, l0, [c], term, None, 0)
        # two chunks
        if thor:
            l2, cs = (l0s if name in ("A", "D", "E") else sorted(set([0, 1, s1 // 2, s1 - 1]))), allc
        else:
            l2 = sorted(set([0, s1 // 2, s1 - 1])) if name in ("A", "B") else []
            cs = few
        for l0 in l2:
            for c1 in cs:
                for c2 in cs:
                    add("c2" + name, lay, l0, [c1, c2], WB, None, 0)
        # three chunks
        c3 = [1, maxsz] if not thor else some
        for l0 in ([0, s1 - 1] if name in ("A", "D") or (thor and name == "E") else []):
            for cc in itertools.product(c3, repeat=3):
                add("c3" + name, lay, l0, list(cc), WB if sum(cc) % 3 else EOF, None, 0)
    return out



# ------------------------------------------------------------------------------------------------
# H-2 send step
# ------------------------------------------------------------------------------------------------
def h2_fmt(idx, sh):
    reqs, tx, rev, l0, rxterm, rc0, maxc, elapsed = sh
    rq = "(" + ", ".join("%d,%d,%d" % r for r in reqs) + ")"
    st = "(" + ", ".join("%s,%d" % t for t in tx) + ")"
    return "S(%d, %d, %s, %d, %s, (%s), %d, %s, %d, %d, %d)" % (idx, len(reqs), rq, len(tx), st, rev, l0, rxterm, rc0, maxc, elapsed)


def splits(n):
    """some ways of accepting n bytes: whole, oversize offer, bytewise, 1+rest, rest+1"""
    out = [[n], [16]]
    if n > 1:
        out += [[1] * n, [1, n - 1], [n - 1, 1]]
    if n > 3:
        out.append([2, n - 2])
    return out


def h2_shapes(tier):
    out = []
    PO, PIO, PI = "POLLOUT", "POLLIN|POLLOUT", "POLLIN"

    def add(tag, reqs, tx, rev=PO, l0=0, rxterm=WB, rc0=0, maxc=5, elapsed=0):
        out.append((tag, (reqs, [(DATA, x) if isinstance(x, int) else (x, 0) for x in tx], rev, l0, rxterm, rc0, maxc, elapsed)))
    lens = [(1,), (4,), (2, 3), (5, 1, 4), (8, 8, 8)] if tier != "thorough" else [(1,), (2,), (4,), (8,), (2, 3), (6, 1), (5, 1, 4), (1, 1, 1), (8, 8, 8), (3, 8, 2)]
    # ---- base: everything is written; head fresh or partially written before
    for ls in lens:
        for s0 in sorted(set([0, 1, ls[0] - 1])):
            if s0 >= ls[0] or s0 < 0:
                continue
            reqs = [(l, s0 if i == 0 else 0, 0) for i, l in enumerate(ls)]
            parts = [splits(l - (s0 if i == 0 else 0)) for i, l in enumerate(ls)]
            combos = list(itertools.product(*parts))
            if tier != "thorough":
                combos = combos[::max(1, len(combos) // 6)]
            for j, combo in enumerate(combos):
                tx = [x for part in combo for x in part]
                if len(tx) > 11:
                    continue
                add("base", reqs, tx, [PO, PIO][j % 2], j % 2 if j % 4 < 2 else 0, WB, 0, 5, (j // 2) % 2)
    # queue empty, output not ready, nothing to do
    add("base", [], [], PO); add("base", [], [], PIO, 1); add("base", [(3, 0, 0)], [], PI, 0); add("base", [(3, 0, 0)], [], PI, 1)
    # throttle: budget 0,1,2 of three requests; round elapsed resets the count
    for rc0, maxc, el, nsend in ((5, 5, 0, 0), (7, 5, 0, 0), (4, 5, 0, 1), (3, 5, 0, 2), (5, 5, 1, 3), (0, 1, 0, 1), (0, 0, 0, 0), (1, 1, 1, 1)):
        ls = (2, 3, 1)
        add("base", [(l, 0, 0) for l in ls], list(ls[:nsend]), PO, 0, WB, rc0, maxc, el)
    # abandoned requests that were never started: state changed by the application (1), send timeout (2)
    for cl in (1, 2):
        add("base", [(3, 0, cl)], [])
        add("base", [(3, 0, cl), (2, 0, 0)], [2])
        add("base", [(3, 0, 0), (2, 0, cl), (4, 0, 0)], [3, 1, 3])
        add("base", [(3, 2, 0), (2, 0, cl), (4, 0, cl)], [1])
    # hard error / peer close while nothing is partly written
    add("base", [(3, 0, 0)], [HARD]); add("base", [(3, 0, 0), (2, 0, 0)], [3, HARD]); add("base", [(2, 0, 0), (2, 0, 0), (5, 0, 0)], [1, 1, 2, HARD])
    add("base", [(3, 0, 0)], [], PIO, 0, EOF); add("base", [(3, 0, 0), (1, 0, 0)], [], PIO, 1, HARD); add("base", [], [], PIO, 1, EOF)
    # ---- f1: would-block on send
    add("f1", [(3, 0, 0)], [WB])
    add("f1", [(5, 0, 0)], [2, WB]); add("f1", [(5, 2, 0)], [1, 1, WB]); add("f1", [(5, 4, 0), (3, 0, 0)], [1, WB])
    add("f1", [(2, 0, 0), (4, 0, 0), (1, 0, 0)], [2, 3, WB]); add("f1", [(5, 0, 0)], [2, WB], PIO, 0, WB); add("f1", [(5, 1, 0)], [2, WB], PIO, 1, WB)
    add("f1", [(8, 0, 0), (8, 0, 0)], [8, 7, WB], PO, 0, WB, 0, 5, 1)
    # ---- f2: a partly written head is abandoned (send timeout / state change) while the connection stays open
    for cl in (1, 2):
        add("f2", [(5, 2, cl)], []); add("f2", [(5, 2, cl), (3, 0, 0)], [3]); add("f2", [(4, 3, cl), (2, 0, 0), (2, 0, 0)], [1, 1, 2])
    # ---- f3: the connection is closed while the head is partly written
    add("f3", [(5, 2, 0)], [HARD]); add("f3", [(5, 0, 0)], [2, HARD]); add("f3", [(2, 0, 0), (4, 0, 0)], [2, 1, 1, HARD])
    add("f3", [(5, 2, 0)], [], PIO, 0, EOF); add("f3", [(5, 4, 0), (1, 0, 0)], [], PIO, 1, HARD); add("f3", [(3, 1, 0)], [], PI, 0, EOF)
    return out


# ------------------------------------------------------------------------------------------------
# H-3b blocking exchange (one shape per cbmc run: the 65 539-byte stack buffer is field-sensitive)
# ------------------------------------------------------------------------------------------------
def h3_parts(b0, dlen):
    return [2] + ([2] if b0 & 0x80 else []) + ([dlen] if dlen else [])


def h3_split(l, how):
    if how == "whole" or l == 1:
        return [l]
    if how == "over":
        return [16]
    if how == "bytes":
        return [1] * l
    return [1, l - 1]           # mixed


def h3_inst(label, b0, dlen, rx, tx, reqlen, gai=0, sockfail=0, conn=0, expect_ok=1):
    def fm(st):
        return "{" + ", ".join("{%s, %d}" % ((DATA, x) if isinstance(x, int) else (x, 0)) for x in st) + "}"
    return {"label": label, "defines": ["B0=0x%02x" % b0, "DLEN=%d" % dlen, "REQ_LEN=%d" % reqlen, "TX_SCRIPT=" + fm(tx), "TX_STEPS=%d" % len(tx),
                                        "RX_SCRIPT=" + fm(rx), "RX_STEPS=%d" % len(rx), "GAI_RET=%d" % gai, "SOCKET_FAIL=%d" % sockfail,
                                        "CONNECT_RET=%d" % conn, "EXPECT_OK=%d" % expect_ok]}


def h3_instances(tier):
    out = []
    thor = tier == "thorough"
    elems = [("e1", 0x02, 0), ("e2", 0x1f, 3), ("e3", 0x80, 0), ("e4", 0xe5, 5)]
    tail = [1, 1, 1]            # consumed only by a reader that takes more than the element
    hows = ["whole", "bytes", "over", "mixed"]
    for i, (en, b0, d) in enumerate(elems):
        for j, how in enumerate(hows):
            if not thor and j != i:
                continue
            rx = [x for p in h3_parts(b0, d) for x in h3_split(p, how)]
            tx = [[4], [1, 3], [EINTR, 2, EINTR, 2], [16]][j]
            out.append(h3_inst("%s_%s" % (en, how), b0, d, rx + tail, tx, 4))
    # EINTR while reading
    out.append(h3_inst("e4_eintr", 0xe5, 5, [EINTR, 2, 1, EINTR, EINTR, 1, 2, EINTR, 3] + tail, [4], 4))
    # faults at every call position of the mixed chunking
    for en, b0, d in ([elems[3]] if not thor else elems):
        calls = [x for p in h3_parts(b0, d) for x in h3_split(p, "mixed")]
        for k in range(len(calls) + (1 if thor else 0)):
            for m, kind in enumerate((EOF, WB, HARD)):
                if not thor and m != k % 3:
                    continue
                if k == len(calls):
                    continue
                out.append(h3_inst("%s_f%d_%s" % (en, k, kind[3:].lower()), b0, d, calls[:k] + [kind], [4], 4, expect_ok=0))
    # send faults
    out.append(h3_inst("tx_hard0", 0x1f, 3, [2, 3] + tail, [HARD], 4, expect_ok=0))
    out.append(h3_inst("tx_wb2", 0x1f, 3, [2, 3] + tail, [2, WB], 4, expect_ok=0))
    if thor:
        out.append(h3_inst("tx_hard3", 0x1f, 3, [2, 3] + tail, [1, 1, 1, HARD], 4, expect_ok=0))
        out.append(h3_inst("tx_eintr_hard", 0x1f, 3, [2, 3] + tail, [EINTR, 3, EINTR, HARD], 4, expect_ok=0))
    # no connection
    out.append(h3_inst("gai", 0x1f, 3, [2, 3], [4], 4, gai=-2, expect_ok=0))
    out.append(h3_inst("nosock", 0x1f, 3, [2, 3], [4], 4, sockfail=1, expect_ok=0))
    out.append(h3_inst("refused", 0x1f, 3, [2, 3], [4], 4, conn=-1, expect_ok=0))
    return out


def group_instances(prefix, shapes, fmt, extra_defs=()):
    insts = []
    bytag = {}
    for tag, sh in shapes:
        bytag.setdefault(tag, []).append(sh)
    for tag in sorted(bytag):
        lst = bytag[tag]
        for g in range(0, len(lst), GROUP):
            part = lst[g:g + GROUP]
            macro = " ".join(fmt(i, sh) for i, sh in enumerate(part))
            insts.append({"label": "%s%s_%02d" % (prefix, tag, g // GROUP),
                          "defines": list(extra_defs) + ["NSHAPES=%d" % len(part), "SHAPES=" + macro]})
    return insts


# ------------------------------------------------------------------------------------------------
def main():
    plan = {
        "property": "C14",
        "outside": "PDUs larger than the instantiated sizes are covered only by (i) the symbolic length arithmetic of the blocking reader (h3_lenarith: every declared length "
                   "0..65535 and buffer size 0..65539) and (ii) the by-hand uniformity argument for dispatch() below; streams / queues longer than the enumerated shapes; "
                   "more than 3 receive chunks or 3 queued requests per dispatch() call (longer histories follow by induction over calls, by hand); connection establishment "
                   "(openSocket, connect timeout, POLLHUP), KSI_AsyncService_run above dispatch(), the HTTP clients, real sockets; a peer that never stops sending (dispatch() "
                   "then never returns - not examined).",
        "assumptions": [
            "env/sock_model.c: poll/recv/send/close/socket/connect/getaddrinfo/ioctl/setsockopt/time/difftime/strerror replaced by a scripted (concrete shape) or nondeterministic "
            "(h3_sockread) model inside their POSIX contracts; send never returns 0 for a non-empty buffer",
            "env/mem_model.c: memcpy/memmove as byte loops (dispatch harnesses)",
            "BUFFER SIZE IS A PARAMETER: h1_recv/h2_send compile the real net_tcp_async.c with -DKSI_TLV_MAX_SIZE=12 (thorough also 8 and 16) through the source hook "
            "harness/C14/hook.diff, i.e. with inBuf[24]; the step to the shipped 65 539 (inBuf[131 078]) is a BY-HAND uniformity argument: dispatch() refers to the buffer only through "
            "sizeof(inBuf), KSI_TLV_MAX_SIZE and inLen, never through a literal; h0_const proves on the shipped constants that KSI_TLV_MAX_SIZE = 4 + 0xffff is exactly the largest "
            "element a TLV header can declare and sizeof(inBuf) = 2 x KSI_TLV_MAX_SIZE, which turns h1_recv's precondition 'every element declares <= KSI_TLV_MAX_SIZE bytes' into a theorem "
            "for the shipped configuration",
            "h1_recv is an inductive step from the invariant 'inBuf[0..inLen) is a proper prefix of one element'; that dispatch() establishes it initially (inLen = 0) and that whole-stream "
            "chunking independence follows by induction over calls is argued by hand",
            "h2_send: clock and option values concrete per shape (decisions about send timeout / round limit are not C14's subject); KSI_AsyncHandle_free replaced by a reference-count stub",
            "first byte (form bit, flags, 5 tag bits) and length bytes of every element are concrete per shape in h1_recv/h3_readresp (all 256 first bytes are symbolic only in h3_sockread, h3_lenarith, h0_const)",
        ],
        "manifest": {
            "claimed": True,
            "level_text": "Blocking client: for every byte stream, every chunking (each recv result 1..offered), and peer close / timeout / hard error / EINTR at every call, the SAT solver shows "
                          "for caller buffers of 1..5 bytes (thorough 1..8) that KSI_FTLV_socketRead takes from the socket only bytes of ONE element - short header first, then the long-form rest, then exactly "
                          "the declared payload -, stores them in order, returns OK exactly for a complete fitting element and an error otherwise; the same request sequence is shown for every "
                          "declared length 0..65535 and buffer size 0..65539 over an abstract byte source; the real readResponse() (65 539-byte stack buffer) is executed on enumerated "
                          "send/receive schedules with symbolic payloads: whole request written, exactly one element consumed and delivered, faults give a network error, no partial response, socket closed once. "
                          "Asynchronous client: dispatch() of the real net_tcp_async.c, instantiated with a 24-byte reassembly buffer, is executed as one inductive step on enumerated shapes "
                          "(every initial fill level x every size of one receive chunk for five stream layouts, pairs and triples of chunk sizes, would-block / close / error endings; request queues of 0..3 requests "
                          "with partial sends, would-block, hard errors, abandoned and throttled requests) with symbolic byte values, against a reference splitter / reference wire log written from the TLV format.",
            "level_note": "dispatch() is checked for KSI_TLV_MAX_SIZE = 12 (8, 16 in thorough), NOT for the shipped 65 539: the transfer is a by-hand uniformity argument plus h0_const (see assumptions); "
                          "shapes (lengths, chunk sizes, outcomes, first header byte) are enumerated and concrete, only byte values, errno values and options are symbolic, so the dispatch harnesses are "
                          "exhaustive only over the stated shape lists; needs the source hook harness/C14/hook.diff in /repo; three send-side defects found by h2_send are documented in "
                          "harness/C14/FINDINGS.md (instances h2_send.f1/f2/f3 fail on the unfixed tree by design); socket layer and clock are models.",
            "technique": "bounded symbolic execution of the real C sources with CBMC (SAT): fully symbolic for the small-buffer blocking reader, concrete-shape/symbolic-value enumeration for readResponse and dispatch; witness twins; native replay of counterexamples",
        },
        "harnesses": []}
    H = plan["harnesses"]

    def nshapes(insts):
        return sum(int(d.split("=")[1]) for i in insts for d in i["defines"] if d.startswith("NSHAPES="))

    # ---- H-1
    q = group_instances("m12", h1_shapes(12, "quick"), h1_fmt, ["KSI_TLV_MAX_SIZE=12"])
    th = group_instances("m12", h1_shapes(12, "thorough"), h1_fmt, ["KSI_TLV_MAX_SIZE=12"]) + \
        group_instances("m8", h1_shapes(8, "quick"), h1_fmt, ["KSI_TLV_MAX_SIZE=8"]) + \
        group_instances("m16", h1_shapes(16, "quick"), h1_fmt, ["KSI_TLV_MAX_SIZE=16"])
    # the same oracle on CONCRETE byte values (see c14_async.h): conclusive also for defects that make lengths symbolic
    conc = [("conc", sh) for tag, sh in h1_shapes(12, "quick") if tag in ("c1A", "x1A", "c2A")][::2]
    cq = group_instances("m12", conc, h1_fmt, ["KSI_TLV_MAX_SIZE=12", "C14_CONCRETE_BYTES=1"])
    q = cq + q
    th = cq + th
    H.append({"name": "h1_recv", "src": "h1_recv.c", "env": ["ctx", "sock_model", "mem_model", "list_wrap", "fmt_stub"], "tus": ["types_base", "fast_tlv"],
              "global_defines": ["SK_STREAM_MAX=64"],
              "unwind": 26, "timeout": 300, "mem_gb": 8, "object_bits": 12, "functions": ["dispatch", "closeSocket", "KSI_FTLV_memRead", "KSI_OctetString_new"],
              "instances": q, "thorough": {"instances": th, "timeout": 900},
              "bound": "KSI_TLV_MAX_SIZE=12 (inBuf 24 bytes; thorough also 8 and 16): stream layouts A-E of TLV8/TLV16 elements of 2..MAX bytes; every initial fill 0..size(first element)-1; "
                       "one chunk of every size 1..MAX; pairs/triples of chunk sizes from a subset (thorough: all 144 pairs at every fill for layouts A, D, E and at 4 fills for B, C); endings would-block / peer close / hard error / no POLLIN; 0 or 1 response already queued; "
                       "'conc' instances = same shapes with concrete pseudo-random bytes; quick %d shapes, thorough %d shapes; byte values, errno, options symbolic" % (nshapes(q), nshapes(th))})
    # ---- H-2
    q = group_instances("", h2_shapes("quick"), h2_fmt, ["KSI_TLV_MAX_SIZE=12"])
    th = group_instances("", h2_shapes("thorough"), h2_fmt, ["KSI_TLV_MAX_SIZE=12"])
    H.append({"name": "h2_send", "src": "h2_send.c", "env": ["ctx", "sock_model", "mem_model", "list_wrap", "fmt_stub"], "tus": ["types_base", "fast_tlv"],
              "unwind": 12, "timeout": 300, "mem_gb": 8, "object_bits": 12, "functions": ["dispatch", "closeSocket"],
              "instances": q, "thorough": {"instances": th, "timeout": 900},
              "bound": "0..3 queued requests of 1..8 bytes, head possibly partially written, classes in-time / state changed / send timeout; send results whole, oversize offer, bytewise, split; "
                       "would-block (f1), abandoned partial head (f2), close with partial head (f3), hard error, peer close, round limit; quick %d shapes, thorough %d; request bytes and errno symbolic; "
                       "instances f1/f2/f3 FAIL on the unfixed tree: FINDINGS.md" % (nshapes(q), nshapes(th))})
    # ---- H-3
    def sr(n):
        return {"label": "n%d" % n, "defines": ["N=%d" % n], "unwindset": ["KSI_IO_readSocket.0:3", "KSI_IO_readSocket.1:%d" % (max(n - 2, 2) + 1)]}
    rfp = ["readData.function_pointer_call.%d/wrapSocketRead" % i for i in (1, 2, 3)]
    H.append({"name": "h3_sockread", "src": "h3_sockread.c", "env": ["sock_model"], "tus": ["fast_tlv", "io"],
              "global_defines": ["SK_EINTR_MAX=1", "SK_CHUNK_MAX=8"], "unwind": 3, "timeout": 300, "mem_gb": 8, "object_bits": 12, "restrict_fp": rfp,
              "instances": [sr(n) for n in (1, 2, 3, 4, 5)], "thorough": {"instances": [sr(n) for n in (1, 2, 3, 4, 5, 6, 7, 8)], "timeout": 1800},
              "functions": ["KSI_FTLV_socketRead", "readData", "wrapSocketRead", "KSI_IO_readSocket", "parseHdr"],
              "bound": "caller buffer N = 1..5 bytes (thorough 1..8), all stream bytes, all chunk sizes 1..offered at every recv call, peer close / timeout / hard error at every call, at most one EINTR"})
    q, th = h3_instances("quick"), h3_instances("thorough")
    H.append({"name": "h3_readresp", "src": "h3_readresp.c", "env": ["ctx", "sock_model", "fmt_stub"], "tus": ["fast_tlv", "io"],
              "unwind": 8, "timeout": 300, "mem_gb": 8, "object_bits": 12, "restrict_fp": rfp,
              "cbmc_flags": ["--max-field-sensitivity-array-size", "65600"],
              "instances": q, "thorough": {"instances": th, "timeout": 900},
              "functions": ["readResponse", "KSI_FTLV_socketRead", "readData", "KSI_IO_readSocket"],
              "bound": "quick: %d exchange schedules, thorough: %d" % (len(q), len(th))})
    H.append({"name": "h3_lenarith", "src": "h3_lenarith.c", "env": [], "tus": ["fast_tlv"], "unwind": 3, "timeout": 200, "mem_gb": 8, "object_bits": 12,
              "restrict_fp": ["readData.function_pointer_call.%d/src" % i for i in (1, 2, 3)], "functions": ["readData", "parseHdr"],
              "bound": "every declared length 0..65535 in both header forms, every caller buffer size 0..65539, short / failed read at every request"})
    H.append({"name": "h0_const", "src": "h0_const.c", "env": ["ctx", "sock_model", "list_wrap", "fmt_stub"], "tus": ["types_base", "fast_tlv"],
              "unwind": 4, "timeout": 100, "mem_gb": 8, "object_bits": 12, "functions": ["KSI_FTLV_memRead"], "bound": "all 4-byte headers; shipped constants"})
    json.dump(plan, open(os.path.join(HERE, "plan.json"), "w"), indent=1)
    for h in H:
        print(h["name"], "quick instances:", len(h.get("instances", [1])), "thorough:", len(h.get("thorough", {}).get("instances", [])), h["bound"])


if __name__ == "__main__":
    main()
