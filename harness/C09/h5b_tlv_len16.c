/* C09 H-5b: 16-bit length field boundary of the tree codec, decided on symbolic payload LENGTHS 0..65535 per
 * element (contents irrelevant: the serialiser is run in its length-query mode, buf == NULL, which performs
 * exactly the same length / header arithmetic and copies nothing).
 * A parent whose nested content (children headers + payloads) exceeds 0xffff must be refused - the length
 * field cannot express it - and otherwise the reported length is header + content with the two-byte header
 * exactly when tag <= 0x1f and content <= 0xff.
 * The objects are built with KSI_TLV_new + KSI_TLV_appendNestedTlv; the children's raw payload length (which
 * KSI_TLV_setRawValue accepts up to 65535) is written into the object directly to avoid 64 KiB copies. */
#include "verif.h"
#include "internal.h"
#include "tlv.h"
#include "ctx.h"
#include "verif_post.h"
#include "tlv.c"
void harness(void) {
	VERIF_ctx_init(); KSI_CTX *ctx = VERIF_ctx; int res;
	unsigned tag[3]; size_t len[3];
	for (int k = 0; k < 3; k++) { tag[k] = ND(unsigned, tag); ASSUME(tag[k] <= 0x1fff); len[k] = ND(size_t, len); ASSUME(len[k] <= 0xffff); }
	KSI_TLV *top = NULL, *c0 = NULL, *c1 = NULL;
	res = KSI_TLV_new(ctx, tag[0], 0, 0, &top); ASSUME(res == KSI_OK);
	res = KSI_TLV_new(ctx, tag[1], 0, 0, &c0); ASSUME(res == KSI_OK);
	res = KSI_TLV_new(ctx, tag[2], 0, 0, &c1); ASSUME(res == KSI_OK);
	c0->datap_len = len[1]; c1->datap_len = len[2];     /* state reachable through KSI_TLV_setRawValue(c, data, len) */
	res = KSI_TLV_appendNestedTlv(top, c0); ASSUME(res == KSI_OK);
	res = KSI_TLV_appendNestedTlv(top, c1); ASSUME(res == KSI_OK);
	size_t h1 = (tag[1] <= 0x1f && len[1] <= 0xff) ? 2 : 4, h2 = (tag[2] <= 0x1f && len[2] <= 0xff) ? 2 : 4;
	size_t content = h1 + len[1] + h2 + len[2];
	size_t out = 0;
	res = KSI_TLV_serialize_ex(top, NULL, 0, &out);
	if (content > 0xffff) {
		CHECK(res != KSI_OK, "C09.H5b nested content exceeding the 16-bit length field is refused, not given a truncated length");
		if (content == 0x10000) WITNESS_POINT("content of exactly 65536 bytes");
	} else {
		size_t h0 = (tag[0] <= 0x1f && content <= 0xff) ? 2 : 4;
		CHECK(res == KSI_OK && out == h0 + content, "C09.H5b serialised length = shortest header + content");
		if (content == 0xffff) WITNESS_POINT("content of exactly 65535 bytes");
		if (h0 == 2) WITNESS_POINT("two-byte parent header");
	}
}
