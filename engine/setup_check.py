#!/usr/bin/env python3
"""setup: nothing to build (harnesses are compiled from source on every check run); verify the tools exist."""
import shutil, subprocess, sys
ok = True
for t in ("cbmc", "goto-cc", "goto-instrument", "gcc", "python3"):
    if not shutil.which(t):
        print("missing tool:", t); ok = False
if ok:
    print(subprocess.run(["cbmc", "--version"], capture_output=True, text=True).stdout.strip())
sys.exit(0 if ok else 1)
