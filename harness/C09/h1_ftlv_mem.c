/* C09 H-1: header reader KSI_FTLV_memRead / parseHdr on every byte string of length 0..N.
 * Reference decode written from the TLV format definition (tlv.h): first byte = 16-bit flag 0x80,
 * non-critical 0x40, forward 0x20, 5 tag bits; TLV8: 1 length byte; TLV16: 8 more tag bits and
 * a big-endian 16-bit length.  OK <=> header complete and header+payload fit in l. */
#include "verif.h"
#include "internal.h"
#include "fast_tlv.c"
#ifndef N
#define N 8
#endif
void harness(void) {
	size_t l = ND(size_t, len);
	ASSUME(l <= N);
	u8 *buf = verif_buf_alloc(l);      /* exact-size object: any read past l is an out-of-bounds access */
	for (size_t i = 0; i < N; i++) { u8 b = ND(u8, buf); if (i < l) buf[i] = b; }
	KSI_FTLV t;
	int res = KSI_FTLV_memRead(buf, l, &t);

	/* reference */
	int ok = 0; unsigned tag = 0, hdr = 0, dat = 0, nc = 0, fwd = 0;
	if (l >= 2) {
		nc = (buf[0] & 0x40) != 0; fwd = (buf[0] & 0x20) != 0;
		if (buf[0] & 0x80) {
			if (l >= 4) { hdr = 4; tag = ((buf[0] & 0x1f) << 8) | buf[1]; dat = (buf[2] << 8) | buf[3]; ok = (l >= hdr + dat); }
		} else { hdr = 2; tag = buf[0] & 0x1f; dat = buf[1]; ok = (l >= hdr + dat); }
	}
	CHECK((res == KSI_OK) == (ok != 0), "C09.H1 memRead accepts exactly complete elements that fit the buffer");
	if (res == KSI_OK) {
		CHECK(t.tag == tag && t.hdr_len == hdr && t.dat_len == dat, "C09.H1 memRead reports encoded tag and lengths");
		CHECK((t.is_nc != 0) == (nc != 0) && (t.is_fwd != 0) == (fwd != 0), "C09.H1 memRead reports encoded flags");
		CHECK(t.off == 0, "C09.H1 memRead offset zero");
		if (hdr == 4 && dat > 0) WITNESS_POINT("tlv16 element with payload accepted");
		if (hdr == 2) WITNESS_POINT("tlv8 element accepted");
	} else {
		CHECK(res == KSI_INVALID_FORMAT, "C09.H1 memRead error code is INVALID_FORMAT");
		if (l == 3) WITNESS_POINT("truncated header rejected");
	}
	verif_buf_free(buf, l);
}
