/* C06 H-4: request side.  KSI_AggregationReq_encloseWithHeader / KSI_ExtendReq_encloseWithHeader (real, with
 * KSI_*Pdu_updateHmac, KSI_*Pdu_calculateHmac, pdu_calculateHmac(_v2)) - KSI_HMAC_create and the template serializer are
 * capture stubs (c06_pdu.h).  From the property statement ("every request PDU produced by the SDK carries an HMAC under
 * the endpoint key and the configured algorithm ..."):
 *   - HMAC algorithm not configured -> KSI_INVALID_STATE, deprecated/unknown algorithm -> KSI_UNTRUSTED_HASH_ALGORITHM;
 *     in both cases nothing is serialized, no MAC is computed, no PDU is returned;
 *   - otherwise the PDU is serialized while it carries an all-zero MAC imprint of the configured algorithm (so the
 *     serialized length is the final length and the digest is the trailing part), the MAC is computed with the
 *     configured algorithm and the caller's key, and the returned PDU carries exactly that MAC, the caller's header
 *     and the caller's request;
 *   - any failure leaves *pdu untouched and header and request alive (still owned by the caller).
 * Shape (concrete per instance): family, configured algorithm CFG, request kind REQKIND (0 payload, 1 configuration
 * only, 2 both).  Symbolic: PDU version option, status of MAC computation and serializer, serialized bytes. */
#include "verif.h"
#include "internal.h"
#include "impl/hash_impl.h"
#include "ctx.h"
#include "tlv.h"
#include "hmac.h"
#include "tlv_template.h"
#include "hashchain.h"
#include "pkitruststore.h"
#include "net.h"
#include "net_async.h"
#include "net_ha.h"
#include "tlv_element.h"
#include "impl/ctx_impl.h"
#include "impl/meta_data_impl.h"
#include "impl/meta_data_element_impl.h"
#include "verif_post.h"
#include "types.c"
#define C06_NULL_DTORS 1
#include "c06_pdu.h"

#ifndef CFG
#define CFG 1
#endif
#ifndef REQKIND
#define REQKIND 0
#endif
#ifndef WITH_LOGIN
#define WITH_LOGIN 0   /* 1: KSI_*Req_enclose(req, loginId, key, &pdu): the header is created from the login id, the user's header callback runs before the MAC is computed */
#endif
#define HLEN(a) ((a) == 0 ? 20 : (a) == 1 ? 32 : (a) == 2 ? 20 : (a) == 4 ? 48 : (a) == 5 ? 64 : (a) == 7 ? 28 : (a) == 8 ? 32 : (a) == 9 ? 48 : (a) == 10 ? 64 : (a) == 11 ? 32 : 0)
#define CFG_UNSET (CFG == 0x100)
#define CFG_TRUSTED (HLEN(CFG) != 0 && CFG != 0)

static KSI_Header *the_hdr;
#if WITH_LOGIN
static const char login[] = "u\xc3\xa4r-01";
static unsigned cb_calls, cb_seq_mac_calls; static int cb_status;
static int header_cb(KSI_Header *hdr) { cb_calls++; the_hdr = hdr; cb_seq_mac_calls = c06_mac.calls + c06_ser.calls; cb_status = ND(int, header_cb_status); return cb_status; }
#endif
static int g_placeholder_ok = 1, g_hdr_at_ser_ok = 1, g_whole_pdu_serialized;
static void c06_ser_hook(const void *obj, unsigned tag) {
	if (tag == TAG_V2_REQPDU) {
		const PDU *p = obj;
		g_whole_pdu_serialized++;
		if (p->header != the_hdr) g_hdr_at_ser_ok = 0;
		if (p->hmac == NULL || p->hmac->imprint_length != 1 + HLEN(CFG) || p->hmac->imprint[0] != (CFG & 0xff)) g_placeholder_ok = 0;
		else for (unsigned i = 0; i < 64; i++) if (i < HLEN(CFG) && p->hmac->imprint[1 + i] != 0) g_placeholder_ok = 0;
	}
}

void harness(void) {
	VERIF_ctx_init();
	KSI_CTX *ctx = VERIF_ctx;
	int res;
	static const char key[] = "k3y";
	size_t ver = ND(size_t, pdu_version);
	ctx->options[OPT_PDU_VER] = ver;
	ctx->options[OPT_HMAC_ALG] = (size_t)CFG;

	REQ *req = NULL;
	res = REQ_new(ctx, &req); ASSUME(res == KSI_OK);
#if REQKIND == 0 || REQKIND == 2
#if PDU_EXT
	/* concrete time: KSI_Integer_new picks a shared pool object for values < 256, so a symbolic value makes the object
	 * identity symbolic (expensive); the value is irrelevant for what is checked here */
	res = KSI_Integer_new(ctx, 1500000000, &req->aggregationTime); ASSUME(res == KSI_OK);
#else
	{
		KSI_DataHash *d = malloc(sizeof(*d)); ASSUME(d != NULL);
		d->ctx = ctx; d->ref = 1; d->imprint_length = 33; d->imprint[0] = KSI_HASHALG_SHA2_256;
		for (unsigned i = 0; i < 32; i++) d->imprint[1 + i] = ND(u8, req_hash);
		req->requestHash = d;
	}
#endif
#endif
#if REQKIND == 1 || REQKIND == 2
	res = KSI_Config_new(ctx, &req->config); ASSUME(res == KSI_OK);
#endif
#if WITH_LOGIN
	ctx->requestHeaderCB = header_cb;
#else
	res = KSI_Header_new(ctx, &the_hdr); ASSUME(res == KSI_OK);
#endif
	{
		u8 digest[64]; for (unsigned i = 0; i < 64; i++) digest[i] = ND(u8, mac_digest);
		KSI_DataHash *d = malloc(sizeof(*d)); ASSUME(d != NULL);
		d->ctx = ctx; d->ref = 1; d->imprint_length = 1 + HLEN(CFG); d->imprint[0] = (u8)CFG;
		for (unsigned i = 0; i < 64; i++) d->imprint[1 + i] = digest[i];
		c06_mac_ret = d;
	}

	PDU *out = NULL;
#if WITH_LOGIN
#if PDU_EXT
	res = KSI_ExtendReq_enclose(req, login, key, &out);
#else
	res = KSI_AggregationReq_enclose(req, login, key, &out);
#endif
	CHECK(cb_calls == 1 && cb_seq_mac_calls == 0, "C06.H4 the user's header callback runs exactly once, before anything is serialized or authenticated");
	if (cb_status != KSI_OK) {
		CHECK(res == cb_status && out == NULL && c06_mac.calls == 0 && c06_ser.calls == 0, "C06.H4 a failing header callback stops the request: nothing serialized, nothing authenticated, no PDU");
		if (res == KSI_INVALID_ARGUMENT) WITNESS_POINT("header callback failure stops the request");
		goto release;
	}
	if (res == KSI_OK) {
		const char *got = KSI_Utf8String_cstr(out->header->loginId);
		int same = got != NULL && KSI_Utf8String_size(out->header->loginId) == sizeof(login);
		for (unsigned i = 0; i < sizeof(login); i++) if (same && got[i] != login[i]) same = 0;
		CHECK(same, "C06.H4 the header of the produced PDU carries the login id byte for byte");
	}
#else
	res = REQ_encloseWithHeader(req, the_hdr, key, &out);
#endif

#if CFG_UNSET
	CHECK(res == KSI_INVALID_STATE && out == NULL, "C06.H4 no request PDU without a configured HMAC algorithm");
	CHECK(c06_mac.calls == 0 && c06_ser.calls == 0, "C06.H4 nothing is serialized or authenticated without a configured HMAC algorithm");
	WITNESS_POINT("unconfigured HMAC algorithm refused");
#elif !CFG_TRUSTED
	CHECK(res == KSI_UNTRUSTED_HASH_ALGORITHM && out == NULL, "C06.H4 no request PDU with a deprecated or unknown HMAC algorithm");
	CHECK(c06_mac.calls == 0 && c06_ser.calls == 0, "C06.H4 nothing is serialized or authenticated with a deprecated or unknown HMAC algorithm");
	WITNESS_POINT("untrusted HMAC algorithm refused");
#else
	if (res == KSI_OK) {
		CHECK(out != NULL && out->hmac == c06_mac_ret, "C06.H4 the returned PDU carries the computed MAC");
		CHECK(c06_mac.calls == 1 && c06_mac.alg == CFG && c06_mac.key == key, "C06.H4 one MAC computation with the configured algorithm and the caller's key");
		CHECK(out != NULL && out->header == the_hdr, "C06.H4 the returned PDU carries the caller's header");
#if REQKIND == 0 || REQKIND == 2
		CHECK(out != NULL && out->request == req, "C06.H4 the returned PDU carries the caller's request");
#endif
		if (ver == 2) {
			CHECK(g_whole_pdu_serialized == 1 && c06_ser.obj[0] == out, "C06.H4 v2: the PDU is serialized as a whole for authentication");
			CHECK(g_placeholder_ok, "C06.H4 v2: at serialization time the PDU carries an all-zero MAC of the configured algorithm");
			CHECK(g_hdr_at_ser_ok, "C06.H4 v2: at serialization time the PDU carries the caller's header");
			CHECK(c06_mac.data == c06_ser.buf[0] && c06_mac.len == C06_SERLEN - HLEN(CFG), "C06.H4 v2: the MAC covers the serialization up to the trailing digest");
			WITNESS_POINT("v2 request PDU produced");
		} else {
			CHECK(ver == 1, "C06.H4 a request PDU is only produced for PDU version 1 or 2");
			WITNESS_POINT("v1 request PDU produced");
		}
	} else {
		CHECK(out == NULL, "C06.H4 no PDU is returned together with an error");
		if (c06_mac.calls == 1 && c06_mac_status != KSI_OK) WITNESS_POINT("MAC computation failure: no PDU");
	}
#endif
#if WITH_LOGIN
release:
#endif
	/* ownership: after a failure header and request are still alive and owned by the caller; after success the PDU owns them */
	if (res != KSI_OK) {
#if WITH_LOGIN
		CHECK(req->ctx == ctx && req->ref == 1, "C06.H4 the request survives a failed enclose (the header made from the login id is released)");
#else
		CHECK(the_hdr->ctx == ctx && req->ctx == ctx && req->ref == 1, "C06.H4 header and request survive a failed enclose");
		KSI_Header_free(the_hdr);
#endif
#if PDU_EXT
		KSI_ExtendReq_free(req);
#else
		KSI_AggregationReq_free(req);
#endif
	} else {
		PDU_free(out);
	}
	KSI_DataHash_free(c06_mac_ret);
}
