/* C13 lemma L for the difftime model (c13_model.h):
 *   for 0 <= x < 2^40 and every 64-bit T:   (double)x > (double)T   <=>   x > T
 * (whole-second time differences are exact in double; the conversion of T rounds monotonically and every
 * T >= 2^53 converts to something >= 2^53 > x).  Proved here with CBMC's IEEE-754 encoding. */
#include "verif.h"
void harness(void) {
	long x = ND(long, x);
	size_t T = ND(size_t, T);
	ASSUME(0 <= x && x < ((long)1 << 40));
	double d = (double)x;
	CHECK((d > (double)T) == ((unsigned long long)x > (unsigned long long)T), "C13.H0 lemma L: double comparison of a time difference with the timeout agrees with the integer comparison");
	if (T > ((size_t)1 << 53) + 1 && x > 5) WITNESS_POINT("timeout beyond double precision");
	if (T > 1000 && T < ((size_t)1 << 39) && x == (long)T + 1) WITNESS_POINT("difference one above the timeout");
}
