#!/usr/bin/env python3
"""Generates harness/C17/plan.json.  Run after editing."""
import json, os
HERE = os.path.dirname(os.path.abspath(__file__))
def inst(label, **d):
    return {"label": label, "defines": ["%s=%s" % (k, v) for k, v in d.items()]}

h1 = {"name": "h1_alphabet", "src": "h1_alphabet.c", "env": ["ctx", "ctype_model"], "tus": [],
      "unwind": 20, "harness_unwind": 100, "timeout": 300, "mem_gb": 8,
      "functions": ["KSI_base32Decode", "addBits", "makeMask"],
      "bound": "8-character strings (thorough: 16) with ONE fully symbolic byte (all 256 values; NUL as separate instances) at each position, the other characters a concrete mixed-case letter/digit pattern",
      "instances": [inst("l8_p%d" % p, LEN=8, POS=p) for p in range(8)] + [inst("l8_nul3", LEN=8, POS=3, NUL_AT_POS=1), inst("l8_nul0", LEN=8, POS=0, NUL_AT_POS=1)],
      "thorough": {"instances": [inst("l8_p%d" % p, LEN=8, POS=p) for p in range(8)] + [inst("l16_p%d" % p, LEN=16, POS=p) for p in range(16)]
                   + [inst("l8_nul%d" % p, LEN=8, POS=p, NUL_AT_POS=1) for p in range(8)]}}

h2_dec = [inst("pack_s%d" % n, MODE=1, NSYM=n) for n in [1, 2, 3, 5, 7, 8, 13, 16, 24]]
h2_enc = [inst("enc_n%d_g%d" % (n, g), MODE=2, NDATA=n, GROUP=g) for (n, g) in [(1, 6), (2, 6), (3, 6), (4, 6), (4, 0), (5, 6), (5, 0), (7, 6), (10, 6), (10, 0)]]
h2 = {"name": "h2_codec", "src": "h2_codec.c", "env": ["ctx", "ctype_model"], "tus": [],
      "unwind": 40, "harness_unwind": 160, "timeout": 300, "mem_gb": 8,
      "functions": ["KSI_base32Encode", "addBits", "readNextBits", "makeMask"],
      "bound": "addBits on 1..24 symbolic symbols (thorough up to 124 = SHA2-512 publication); KSI_base32Encode on 1..10 symbolic bytes (thorough 33, 45), group length 6 (and 0 where no padding is needed, 4); all values symbolic, lengths concrete",
      "instances": h2_dec + h2_enc,
      "thorough": {"unwind": 160, "timeout": 1800,
                   "instances": h2_dec + h2_enc + [inst("pack_s53", MODE=1, NSYM=53), inst("pack_s72", MODE=1, NSYM=72), inst("pack_s98", MODE=1, NSYM=98), inst("pack_s124", MODE=1, NSYM=124),
                                                    inst("enc_n33_g6", MODE=2, NDATA=33, GROUP=6), inst("enc_n45_g6", MODE=2, NDATA=45, GROUP=6),
                                                    inst("enc_n6_g6", MODE=2, NDATA=6, GROUP=6), inst("enc_n8_g6", MODE=2, NDATA=8, GROUP=6), inst("enc_n9_g4", MODE=2, NDATA=9, GROUP=4)]}}
# group length 0 with padding: separate harness (genuine defect: heap overflow in the padding loop)
h2z = {"name": "h2z_nogroup_pad", "src": "h2_codec.c", "env": ["ctx", "ctype_model"], "tus": [],
       "unwind": 40, "harness_unwind": 160, "timeout": 300, "mem_gb": 8,
       "functions": ["KSI_base32Encode", "readNextBits"],
       "bound": "KSI_base32Encode with group_len 0 (= no grouping) on 1, 3 and 7 bytes (outputs that need two or more '=' pads)", "max_replays": 1,
       "instances": [inst("enc_n1_g0", MODE=2, NDATA=1, GROUP=0), inst("enc_n3_g0", MODE=2, NDATA=3, GROUP=0), inst("enc_n7_g0", MODE=2, NDATA=7, GROUP=0)]}

h3 = {"name": "h3_crc", "src": "h3_crc.c", "env": [], "tus": [],
      "unwind": 90, "harness_unwind": 100, "timeout": 600, "mem_gb": 8, "solver": "kissat",
      "functions": ["KSI_crc32", "crc32_table"],
      "bound": "lemmas 1,2: all 32-bit r / iv and all bytes; lemma 3: n = 2, 3 (thorough 1..4) symbolic bytes and iv; lemma 4: n = 1 (thorough 1..3); lemma 5: every symbol position and every non-zero 5-bit difference on the 33- and 45-byte layout (thorough also 61, 77), substitution and adjacent swap.  The direct whole-message query (h3_crc.c LEMMA 0, 29 symbolic data bytes) was tried for 60 s on cadical and on kissat and did not finish; it is not part of the plan",
      "instances": [inst("l1_table", LEMMA=1), inst("l2_linear", LEMMA=2), inst("l3_chain_n2", LEMMA=3, NBYTES=2), inst("l3_chain_n3", LEMMA=3, NBYTES=3),
                    inst("l4_affine_n1", LEMMA=4, NBYTES=1),
                    inst("l5_subst_33", LEMMA=5, NBYTES=33, KIND=1), inst("l5_swap_33", LEMMA=5, NBYTES=33, KIND=2),
                    inst("l5_subst_45", LEMMA=5, NBYTES=45, KIND=1), inst("l5_swap_45", LEMMA=5, NBYTES=45, KIND=2)],
      "thorough": {"timeout": 1800, "instances": [inst("l1_table", LEMMA=1), inst("l2_linear", LEMMA=2)] + [inst("l3_chain_n%d" % n, LEMMA=3, NBYTES=n) for n in (1, 2, 3, 4)]
                   + [inst("l4_affine_n%d" % n, LEMMA=4, NBYTES=n) for n in (1, 2, 3)]
                   + [inst("l5_%s_%d" % (k, n), LEMMA=5, NBYTES=n, KIND=kk) for n in (33, 45, 61, 77) for (k, kk) in (("subst", 1), ("swap", 2))]}}

def h4i(label, **d):
    return inst(label, **d)
h4_from = [h4i("from_sha1_33", MODE=1, NBIN=33, ALGBYTE="0x00", WIT_ACCEPT=1), h4i("from_sha256_45", MODE=1, NBIN=45, ALGBYTE="0x01", WIT_ACCEPT=1),
           h4i("from_short_12", MODE=1, NBIN=12, ALGBYTE="0x01"), h4i("from_short_4", MODE=1, NBIN=4), h4i("from_empty", MODE=1, NBIN=0),
           h4i("from_unknown_03", MODE=1, NBIN=45, ALGBYTE="0x03", WIT_UNKNOWN_ALG=1), h4i("from_unknown_0c", MODE=1, NBIN=45, ALGBYTE="0x0c", WIT_UNKNOWN_ALG=1),
           h4i("from_unknown_ff", MODE=1, NBIN=33, ALGBYTE="0xff", WIT_UNKNOWN_ALG=1),
           h4i("from_len44_sha256", MODE=1, NBIN=44, ALGBYTE="0x01", WIT_WRONG_LEN=1), h4i("from_len46_sha256", MODE=1, NBIN=46, ALGBYTE="0x01", WIT_WRONG_LEN=1),
           h4i("from_len45_sha1", MODE=1, NBIN=45, ALGBYTE="0x00", WIT_WRONG_LEN=1), h4i("from_len13_sha256", MODE=1, NBIN=13, ALGBYTE="0x01", WIT_WRONG_LEN=1)]
h4_from_t = h4_from + [h4i("from_ripemd_33", MODE=1, NBIN=33, ALGBYTE="0x02", WIT_ACCEPT=1), h4i("from_sha384_61", MODE=1, NBIN=61, ALGBYTE="0x04", WIT_ACCEPT=1),
                       h4i("from_sha512_77", MODE=1, NBIN=77, ALGBYTE="0x05", WIT_ACCEPT=1), h4i("from_sha3_224_41", MODE=1, NBIN=41, ALGBYTE="0x07", WIT_ACCEPT=1),
                       h4i("from_sm3_45", MODE=1, NBIN=45, ALGBYTE="0x0b", WIT_ACCEPT=1), h4i("from_unknown_06", MODE=1, NBIN=13, ALGBYTE="0x06", WIT_UNKNOWN_ALG=1),
                       h4i("from_unknown_7e", MODE=1, NBIN=45, ALGBYTE="0x7e", WIT_UNKNOWN_ALG=1), h4i("from_len76_sha512", MODE=1, NBIN=76, ALGBYTE="0x05", WIT_WRONG_LEN=1),
                       h4i("from_sha3_512_77", MODE=1, NBIN=77, ALGBYTE="0x0a", WIT_ACCEPT=1), h4i("from_sha3_384_61", MODE=1, NBIN=61, ALGBYTE="0x09", WIT_ACCEPT=1), h4i("from_sha3_256_45", MODE=1, NBIN=45, ALGBYTE="0x08", WIT_ACCEPT=1)]
h4_to = [h4i("to_sha1_33", MODE=2, NBIN=33, ALGBYTE="0x00"), h4i("to_sha256_45", MODE=2, NBIN=45, ALGBYTE="0x01")]
h4_to_t = h4_to + [h4i("to_sha384_61", MODE=2, NBIN=61, ALGBYTE="0x04"), h4i("to_sha512_77", MODE=2, NBIN=77, ALGBYTE="0x05"), h4i("to_ripemd_33", MODE=2, NBIN=33, ALGBYTE="0x02")]
h4 = {"name": "h4_pubstring", "src": "h4_pubstring.c", "env": ["ctx", "hash_model", "list_wrap", "fmt_stub"], "tus": ["publicationsfile", "hash", "types_base"],
      "unwind": 10, "harness_unwind": 100, "timeout": 300, "mem_gb": 8, "object_bits": 12,
      "functions": ["KSI_PublicationData_fromBase32", "KSI_PublicationData_toBase32", "KSI_PublicationData_new", "KSI_PublicationData_free", "KSI_DataHash_fromImprint", "KSI_getHashLength"],
      "bound": "binary lengths 0, 4, 12, 13, 33, 41, 44, 45, 46, 61, 76, 77, algorithm byte concrete per instance (every algorithm libksi knows: SHA-1, SHA2-256/384/512, RIPEMD-160, SHA3-224/256/384/512, SM3; withdrawn 0x03, reserved 0x06, unassigned 0x0c, 0x7e, 0xff), time / digest / stored CRC / CRC value symbolic; base32 codec and CRC replaced by recording models",
      "instances": h4_from_t + h4_to_t, "thorough": {"instances": h4_from_t + h4_to_t}}

plan = {"property": "C17",
        "outside": "KSI_base32Decode's loop on a string with more than one symbolic character (every symbolic character is a possible '=' / '-' / foreign byte for symbolic execution; 13 such characters time out); the end-to-end single query 'mutate any symbol of any valid string' (replaced by the lemma decomposition); separator placement inside '=' padding; CRC-32 over whole symbolic messages longer than 3 bytes (induction by hand from lemmas 1-3)",
        "assumptions": ["C locale ctype table of this machine's glibc for isdigit (env/ctype_model.c); toupper as modelled by CBMC's library (ASCII)",
                        "strlen replaced by a model that proves the length the harness expects (common/c17_strlen.h)"],
        "manifest": {"claimed": True,
                     "level_text": "Compositional, every part decided by the SAT solver on the real C text: (1) KSI_base32Decode with one fully symbolic byte at each position of an 8-character string: letters and 2-7 contribute exactly their 5-bit value, '-' is skipped, '=' / NUL end the data, any other byte is rejected or contributes no bits; (2) addBits / readNextBits / KSI_base32Encode equal a reference bit packer written from RFC 4648 for all data of each length in the bound, and unpacking the encoder's own symbols returns the data; (3) KSI_crc32: table step = 8 bitwise steps of 0xEDB88320 for all inputs, GF(2)-linearity of a step, chaining, affinity, and - with the real function over the 33/45-byte publication layout - every single-symbol substitution and every adjacent-symbol swap has a non-zero syndrome unless it touches only trailing padding bits; (4) KSI_PublicationData_fromBase32 / toBase32 on recording models of codec and CRC: 8-byte big-endian time, imprint, big-endian CRC over both, group length 6; too short, checksum mismatch, unknown algorithm and wrong total length rejected with no object returned; round trip returns time and imprint.",
                     "level_note": "The four parts are glued by hand (induction on the length for the CRC; 'the decoder loop applies the per-character dispatch of (1) and the packer of (2) to each character in turn' by reading 25 lines).  Lengths are bounded as listed per harness; CBMC C semantics; ctype/strlen models as stated.  Two genuine defects are reported by this check until fixed: F13 (digits 0,1,8,9 decode as 31) and a heap overflow of KSI_base32Encode with group length 0 (FINDINGS.md)."},
        "harnesses": [h1, h2, h2z, h3, h4]}
json.dump(plan, open(os.path.join(HERE, "plan.json"), "w"), indent=1)
print("wrote plan.json")
