/* C03 H-4: KSI_CalendarHashChain_calculateAggregationTime == reference derivation of the
 * registration time from link directions and publication time, for every direction pattern of a
 * chain of NLINKS links and every 64-bit publication time.
 * Reference (forward, independent): leaf t of the calendar tree over leaves 0..p has the root-to-leaf
 * direction sequence dirseq(t,p): p == 0 -> empty; h = largest power of two <= p (bit scan);
 * t < h -> LEFT link, continue with (t, h-1); else RIGHT link, continue with (t-h, p-h).
 * accept  =>  t <= p and dirseq(t,p) reversed == the chain's directions
 * reject  =>  no t' in 0..p has that direction sequence (t' symbolic: decided for all t' by the solver). */
#include "verif.h"
#include "internal.h"
#include "impl/hashchain_impl.h"
#include "ctx.h"
#include "verif_post.h"
#ifndef NLINKS
#define NLINKS 4
#endif
static u64 hb(u64 p) { u64 r = 0; for (int b = 63; b >= 0; b--) if (r == 0 && ((p >> b) & 1)) r = 1ULL << b; return r; }
/* does leaf t in tree 0..p have exactly the directions dir[NLINKS-1], ..., dir[0] from the root down? */
static int matches(u64 t, u64 p, const int *dir) {
	if (t > p) return 0;
	for (int i = NLINKS - 1; i >= 0; i--) {
		if (p == 0) return 0;           /* sequence is shorter than the chain */
		u64 h = hb(p);
		if (t < h) { if (!dir[i]) return 0; p = h - 1; }
		else { if (dir[i]) return 0; t -= h; p -= h; }
	}
	return p == 0;                       /* otherwise the sequence is longer than the chain */
}
void harness(void) {
	VERIF_ctx_init(); KSI_CTX *ctx = VERIF_ctx;
	int res; int dir[NLINKS > 0 ? NLINKS : 1];
	KSI_CalendarHashChain *cal = NULL;
	res = KSI_CalendarHashChain_new(ctx, &cal); ASSUME(res == KSI_OK);
	res = KSI_HashChainLinkList_new(&cal->hashChain); ASSUME(res == KSI_OK);
	for (unsigned i = 0; i < NLINKS; i++) {
		KSI_HashChainLink *link = NULL;
		res = KSI_HashChainLink_new(ctx, &link); ASSUME(res == KSI_OK);
		dir[i] = ND_BOOL(isleft); link->isLeft = dir[i];
		res = KSI_HashChainLinkList_append(cal->hashChain, link); ASSUME(res == KSI_OK);
	}
	u64 p = ND(u64, pubtime);
#ifdef PBITS
	ASSUME(p < (1ULL << PBITS));   /* stated bound for the longer chains */
#endif
	res = KSI_Integer_new(ctx, p, &cal->publicationTime); ASSUME(res == KSI_OK);
	time_t t = -1;
	res = KSI_CalendarHashChain_calculateAggregationTime(cal, &t);
#if NLINKS == 0
	CHECK(res == KSI_INVALID_FORMAT, "C03.H4 a calendar chain without links is refused");
	WITNESS_POINT("empty chain refused");
#else
#ifndef SIDE
#define SIDE 0
#endif
	if (SIDE == 1) ASSUME(res == KSI_OK);
	if (SIDE == 2) ASSUME(res != KSI_OK);
	if (res == KSI_OK) {
		CHECK(p <= 0x7fffffffffffffffULL, "C03.H4 publication time beyond the signed range is rejected");
		CHECK(t >= 0 && (u64)t <= p, "C03.H4 registration time within 0..publication time");
		CHECK(matches((u64)t, p, dir), "C03.H4 accepted registration time has exactly the chain's direction sequence");
#if NLINKS >= 2
		if (dir[0] && !dir[NLINKS - 1] && p > 2) WITNESS_POINT("accepted shape");
#else
		WITNESS_POINT("accepted shape");
#endif
	} else {
		CHECK(res == KSI_INVALID_FORMAT, "C03.H4 impossible shape reported as invalid format");
		u64 t2 = ND(u64, anytime);
		CHECK(p > 0x7fffffffffffffffULL || !matches(t2, p, dir), "C03.H4 rejected only if no leaf of the calendar tree has that direction sequence");
		if (p > 5 && p < 0x7fffffffffffffffULL && t2 <= p) WITNESS_POINT("impossible shape rejected");
	}
#endif
}
